"""E3 simwasi driver: WASI host simulation (C12 C13 C14 C15)."""
import os, sys, time, json, shutil, subprocess, re
from common import *

ENG = os.path.join(VERIF, "engines", "simwasi")
SIMCORE = os.path.join(VERIF, "simcore")
WASI_DEFS = ["-DHAS_UNISTD=1", "-DHAS_SYSUIO=1", "-DHAS_SYSTIME=1", "-DHAS_SYSRESOURCE=1", "-DHAS_STRNDUP=1", "-DHAS_FCNTL=1", "-DHAS_LSTAT=1",
             "-DHAS_GETENTROPY=1", "-DHAS_TIMESPEC=1", "-DWASM_THREADS_PTHREADS"]
WRAP_WASI = ("exit open close read write readv writev lseek opendir readdir closedir mkdir rmdir unlink rename symlink readlink stat lstat fstat "
             "getentropy getrandom fsync fdatasync strndup realloc malloc").split()
PROPS = {"C12": (20000, 600000), "C13": (12000, 400000), "C14": (12000, 400000), "C15": (10000, 300000)}


def gen_wasihost():
    key = sha(hash_files([os.path.join(VERIF, "tools", "wasmgen.py"), os.path.join(VERIF, "tools", "wasmenc.py")]), "wasihost")
    d, ok = cached_dir("gen", key)
    if not ok:
        shutil.rmtree(d, ignore_errors=True)
        os.makedirs(d)
        run_cmd([sys.executable, os.path.join(VERIF, "tools", "wasmgen.py"), "wasihost", d])
        mark_done(d)
    return d


def build(variant):
    """variant: 'wasihost' (exports wasi_thread_start), 'wasihostnt' (does not); a '+bundled' suffix compiles wasi/wasi.c the way a
    platform without strndup and getentropy does (the file's own strndup replacement, the /dev/random fallback)."""
    feat = "full"
    if variant.endswith("+bundled"):
        variant, feat = variant[:-8], "bundled"
    if variant.endswith("+nouio"):
        variant, feat = variant[:-6], "nouio"
    be = variant.endswith("+be")
    if be:
        variant, feat = variant[:-3], "be"
    xl, xlkey = build_translator_plain()
    gen = gen_wasihost()
    rfiles = [os.path.join(REPO, "wasi", f) for f in ("wasi.c", "wasi.h")] + [os.path.join(REPO, "w2c2", "w2c2_base.h")]
    vfiles = glob_files(ENG, (".c", ".cpp", ".h")) + glob_files(SIMCORE, (".cpp", ".h")) + [os.path.join(VERIF, "engines", "simrt", "sim_atomics.h")]
    key = sha(xlkey, hash_files(rfiles), hash_files(vfiles), gen, variant, feat, "v2")
    d, ok = cached_dir("e3", key)
    exe = os.path.join(d, "simwasi")
    if ok:
        return exe
    shutil.rmtree(d, ignore_errors=True)
    os.makedirs(d)
    shutil.copy(os.path.join(gen, variant + ".wasm"), d)
    shutil.copy(os.path.join(gen, variant + "_dispatch.inc"), d)
    run_cmd([xl, variant + ".wasm", variant + ".c"], cwd=d, timeout=120)
    cov = ["-fsanitize-coverage=trace-pc-guard,trace-loads,trace-stores"]
    inc = ["-I" + os.path.join(REPO, "w2c2"), "-I" + os.path.join(REPO, "wasi"), "-I" + d, "-I" + ENG]
    bedefs = ["-DWASM_ENDIAN=WASM_BIG_ENDIAN"] if be else []
    sut = ["clang", "-O1", "-g", "-w"] + SAN_MEM + cov + ["-include", os.path.join(VERIF, "engines", "simrt", "sim_atomics.h")] + WASI_DEFS + bedefs + inc
    cmds = [sut + ["-c", os.path.join(d, variant + ".c"), "-o", os.path.join(d, "mod.o")],
            [x for x in sut if not ((feat == "bundled" and x in ("-DHAS_STRNDUP=1", "-DHAS_GETENTROPY=1")) or (feat == "nouio" and x == "-DHAS_SYSUIO=1"))] + ["-c", os.path.join(REPO, "wasi", "wasi.c"), "-o", os.path.join(d, "wasi.o")],
            ["clang", "-O1", "-g", "-Wno-everything", "-Werror=implicit-function-declaration"] + SAN_MEM + WASI_DEFS + bedefs + inc +
            ["-DMOD=" + variant, '-DMOD_HEADER="%s.h"' % variant, '-DMOD_DISPATCH="%s_dispatch.inc"' % variant] + (["-DNOTHREAD"] if variant.endswith("nt") else []) +
            ["-c", os.path.join(ENG, "glue.c"), "-o", os.path.join(d, "glue.o")]]
    cxx = ["clang++", "-std=c++17", "-O1", "-g"] + SAN_MEM + ["-I" + SIMCORE, "-I" + ENG]
    cmds.append(cxx + ["-c", os.path.join(SIMCORE, "simcore.cpp"), "-o", os.path.join(d, "simcore.o")])
    cmds.append(cxx + (["-DSIMWASI_BE"] if be else []) + ["-c", os.path.join(ENG, "simwasi.cpp"), "-o", os.path.join(d, "simwasi.o")])
    parallel_cmds(cmds)
    wraps = ["-Wl,--wrap=" + s for s in WRAP_PTHREAD + WRAP_WASI]
    run_cmd(["clang++"] + SAN_MEM + [os.path.join(d, o) for o in ("mod.o", "wasi.o", "glue.o", "simcore.o", "simwasi.o")] + wraps + ["-lpthread", "-lm", "-o", exe])
    mark_done(d)
    prune_cache("e3", keep=10)
    return exe


COMPONENTS = {
    "real": ["wasi/wasi.c of the working tree (repo feature defines)", "module 'wasihost' (forwarders for every implemented import of both ABI name spaces) translated by the current /repo translator",
             "w2c2/w2c2_base.h", "the Linux kernel on a per-run tmpfs tree (primary) and on a mirror tree driven directly by the harness (reference)"],
    "stub": ["clock_gettime/clock_getres/time (simulated clock)", "getentropy (real call, bytes replaced by the run's data stream)", "exit (records status, ends the simulated process)",
             "pthread_create (simcore task under the seeded scheduler)", "fault points at open/readv/writev/lseek/opendir/readdir; fsync/fdatasync are no-ops"],
}
RULES = {
    "C12": "seeded histories of 5-40 operations over <=6 names in 1-2 pre-opened directories: path_open (CREAT/EXCL/TRUNC/DIRECTORY x APPEND x read/write rights, relative and absolute), fd_write/fd_pwrite/fd_read/fd_pread with 0-5 iovecs incl. zero-length segments and offsets up to 2^33, fd_seek (whence 0-5, both ABI encodings), fd_tell, fd_filestat_get (both layouts), fd_close; one run in three attaches short transfers, EINTR, EIO, ENOSPC or a failing lseek to individual operations; every result, count, offset, delivered byte and the file position are compared with the same POSIX operation on a mirror tree, trees compared at the end; non-trivial = >=3 executed operations incl. >=1 data transfer; distinct = distinct plan",
    "C13": "seeded histories biased to descriptor churn: open/close storms, double close, closed and never-issued numbers (table length, +1, 2^31, 2^32-1) in every implemented descriptor-taking call of both ABIs (23-call sweep), closed descriptors as directory handles, prestat queries with short/exact/long buffers, stdio, injected EMFILE; oracle: EBADF and no host call for dead numbers, no aliasing of live descriptors, prestat name/length, ASan for freed host memory; non-trivial = >=1 close followed by a use; distinct = distinct plan",
    "C14": "seeded histories on a small tree (files, directories, a symlink, a directory of 0-40 entries with name lengths 1-255): create/remove directory, unlink, rename across descriptors, symlink, readlink (short buffers), stat, with relative/absolute/trailing-slash/empty/over-long (around PATH_MAX and up to 2*PATH_MAX) guest paths that are not NUL-terminated; fd_readdir listings with buffers from 24 bytes, cookie resumption and restart, DT_UNKNOWN buggify, opendir/readdir errors; oracle: errno and tree equal the mirror after every operation, rejected paths change nothing, host calls see the resolved path, listing rules; non-trivial = >=3 executed operations; distinct = distinct plan",
    "C15": "seeded argv/environ vectors (0-20 strings, lengths 0-300, arbitrary non-NUL bytes) at unaligned guest addresses; clock_time_get/clock_res_get on ids 0-5/2^32-1 over a simulated clock with second counts up to 2^33 and nsec up to 999999999, injected clock errors; random_get lengths 0..2^20; proc_exit; 1-4 simulated threads calling thread-spawn concurrently under the seeded scheduler (with and without thread-create failures, module with and without wasi_thread_start); non-trivial = >=3 executed operations; distinct = distinct plan",
}
ASSUME = {
    "C12": ["reference = the Linux kernel driven directly with the corresponding POSIX calls (pwritev/preadv for positional I/O)", "excluded as POSIX-ambiguous: positional write on an O_APPEND descriptor, iovcnt > IOV_MAX, error precedence when two errors apply", "writes outside the described result areas are recorded (extra_guest_writes), not judged"],
    "C13": ["unimplemented calls (ENOSYS) are left out", "fd_readdir / path calls on descriptors 0-2 are not part of the workload"],
    "C14": ["resolved lengths within 2 bytes below PATH_MAX are not generated (accept/reject both defensible there)", "the host-path seam check only sees calls that go through the wrapped libc entry points; the tree-effect oracle decides"],
    "C15": ["realtime clock skew/jumps are not injected", "entropy bytes are compared with what the wrapped getentropy supplied; if the implementation used another source only fill/overrun rules apply"],
}


def be_sample(seed, per_prop, rdir):
    """For C19: the WASI workloads of C12-C15 on a build whose runtime accessors are the big-endian ones (module, wasi.c and the
    harness' own guest-memory accessors byte-reverse): the host must reach guest memory only through accessors of the right width.
    Returns (runs, list of failing result dicts)."""
    exe = build("wasihost+be")
    runs, bad = 0, []
    for prop in ("C12", "C13", "C14", "C15"):
        pool = WorkerPool(lambda s, st, c, prop=prop: [exe, "--prop", prop, "--seed", str(seed), "--start", str(s), "--stride", str(st), "--count", str(c), "--replay-dir", rdir, "--scratch", rdir, "--build-tag", "be"],
                          per_prop, wall_cap=3600)
        pool.run()
        runs += len(pool.results)
        for r in pool.results:
            if r.get("verdict") == "FAIL":
                r["prop"] = prop
                bad.append(r)
        for c in pool.crashes:
            bad.append({"prop": prop, "sig": "%s/harness-worker-died/exit%s" % (prop, c["exit"]), "replay": None, "detail": c["stderr"][-400:], "idx": c["idx"]})
    return runs, bad


def replay_be(path, rdir):
    exe = build("wasihost+be")
    return subprocess.run([exe, "--replay", path, "--scratch", rdir], stdout=subprocess.PIPE, stderr=subprocess.PIPE)


def check(prop, tier, seed, replay=None):
    t0 = time.time()
    nq, nt = PROPS[prop]
    total = nq if tier == "quick" else nt
    if os.environ.get("VERIF_RUNS"):
        total = int(os.environ["VERIF_RUNS"])
    variants = ["wasihost", "wasihostnt", "wasihost+bundled"] if prop == "C15" else (["wasihost", "wasihost+bundled", "wasihost+nouio"] if prop == "C12" else ["wasihost", "wasihost+bundled"])
    exes = {v: build(v) for v in variants}
    build_s = time.time() - t0
    rdir = os.path.join(SCRATCH, "verif-e3d-%s-%07d" % (prop, os.getpid()))
    os.makedirs(rdir, exist_ok=True)

    def replay_cmd(path):
        with open(path, errors="replace") as f:
            txt = f.read()
        nt_ = " nothread=1" in txt
        want = "wasihostnt" if nt_ else ("wasihost+bundled" if "# build bundled" in txt else ("wasihost+be" if "# build be" in txt else ("wasihost+nouio" if "# build nouio" in txt else "wasihost")))
        exe = exes.get(want) or build(want)
        return [exe, "--replay", path, "--scratch", rdir] + (["--build-tag", want.split("+")[1]] if "+" in want else [])

    if replay:
        r = subprocess.run(replay_cmd(replay), stdout=subprocess.PIPE, stderr=subprocess.PIPE)
        sys.stdout.write(r.stdout.decode(errors="replace"))
        sys.stderr.write(r.stderr.decode(errors="replace")[-8000:])
        shutil.rmtree(rdir, ignore_errors=True)
        return 1 if r.returncode != 0 else 0

    allres, internal = [], []
    run_wall = 0.0
    for v in variants:
        share = {"wasihost": total * 4 // 6 if prop == "C15" else (total // 2 if prop == "C12" else total * 3 // 4), "wasihostnt": total // 6, "wasihost+bundled": total // 6 if prop == "C15" else total // 4, "wasihost+nouio": total // 4}[v]
        exe = exes[v]
        pool = WorkerPool(lambda s, st, c, exe=exe, v=v: [exe, "--prop", prop, "--seed", str(seed), "--start", str(s), "--stride", str(st), "--count", str(c), "--replay-dir", rdir, "--scratch", rdir] + (["--build-tag", v.split("+")[1]] if "+" in v else []),
                          share, wall_cap=(900 if tier == "quick" else 7200))
        run_wall += pool.run()
        for r in pool.results:
            r["variant"] = v
        allres += pool.results
        internal += pool.internal
        for c in pool.crashes:
            internal.append("worker died outside a simulated child: exit=%s idx=%s %s" % (c["exit"], c["idx"], c["stderr"][-400:]))

    dump_hashes(prop, allres)
    by_sig = {}
    steps = switches = memev = simns = ops = 0
    faults, probes = {}, {}
    distinct = set()
    budget = 0
    for r in allres:
        steps += int(r.get("steps", 0)); switches += int(r.get("switches", 0)); memev += int(r.get("memev", 0)); simns += int(r.get("simns", 0)); ops += int(r.get("ops", 0))
        for k, n in kv_counts(r.get("faults")).items():
            faults[k] = faults.get(k, 0) + n
        for k, n in kv_counts(r.get("probes")).items():
            probes[k] = probes.get(k, 0) + n
        if r.get("status") == "budget":
            budget += 1
        if int(r.get("ops", 0)) >= 3:
            distinct.add(r.get("seed") + r["variant"])
        if r.get("verdict") == "FAIL":
            for s in r.get("sig", "").split(";"):
                if s and s != "-":
                    by_sig.setdefault(s, []).append(r)

    new, known_seen, internal2, lines = handle_violations(prop, by_sig, replay_cmd, lambda c: c.get("replay") if c.get("replay") != "-" else None)
    internal += internal2

    canary_bad = 0
    okres = [r for r in allres if r.get("status") == "ok"]
    sample = okres[:: max(1, len(okres) // 16)][:16]
    for a in sample:
        o = subprocess.run([exes[a["variant"]], "--prop", prop, "--seed", str(seed), "--start", a["idx"], "--count", "1", "--no-replay-files", "--scratch", rdir] + (["--build-tag", a["variant"].split("+")[1]] if "+" in a["variant"] else []),
                           stdout=subprocess.PIPE, stderr=subprocess.DEVNULL).stdout.decode()
        for line in o.splitlines():
            d = parse_result_line(line)
            if d and (d.get("log"), d.get("il"), d.get("sig"), d.get("ops")) != (a.get("log"), a.get("il"), a.get("sig"), a.get("ops")):
                canary_bad += 1
    if canary_bad:
        internal.append("INTERNAL: determinism canary: %d of %d re-executed runs differ" % (canary_bad, len(sample)))

    o = subprocess.run([exes[variants[0]], "--prop", prop, "--seed", str(seed), "--start", "0", "--count", "1", "--dump-plan"], stdout=subprocess.PIPE).stdout.decode()
    r0 = next((r for r in allres if r.get("idx") == "0"), {})
    samples = [{"plan": o.splitlines()[:45], "result": {k: r0.get(k) for k in ("status", "verdict", "ops", "planops", "steps", "switches", "faults")}}]

    wall = time.time() - t0
    evals = len(allres)
    cov = {
        "evaluations": evals, "distinct_nontrivial": len(distinct), "rule": RULES[prop], "samples": samples,
        "simulated_runs": evals, "runs_per_hour": int(evals / max(run_wall, 1e-6) * 3600), "simulated_seconds": round(simns / 1e9, 6),
        "scheduling_steps": steps, "context_switches": switches, "instrumented_memory_events": memev, "operations": ops,
        "distinct_interleavings_or_plans": len(distinct), "fault_fire_counts": faults, "probes": probes, "runs_stopped_by_the_simulators_step_budget_not_judged": "%d" % budget,
        "components": COMPONENTS, "known_findings_seen": known_seen, "violation_signatures": sorted(by_sig.keys()),
        "determinism_canary": {"reexecuted": len(sample), "mismatches": canary_bad}, "build_seconds": round(build_s, 1),
        "internal_errors": internal, "exhaustive": False,
    }
    write_evidence(prop, tier, seed, "exploration", cov, ASSUME[prop], wall, new)
    for l in lines:
        print(l)
    shutil.rmtree(rdir, ignore_errors=True)
    print("%s: %d runs, %d distinct non-trivial, %d new violation signature(s), %d known, %.1fs" % (prop, evals, len(distinct), new, len(known_seen), wall))
    if new:
        return 1
    if internal:
        for i in internal:
            print(i)
        return 2
    return 0
