"""E1 simrt driver: builds the runtime simulation binaries from /repo's working tree and runs a property."""
import os, sys, time, json, shutil, subprocess, re
from common import *

ENG = os.path.join(VERIF, "engines", "simrt")
SIMCORE = os.path.join(VERIF, "simcore")

# property -> (module, variants, quick runs, thorough runs)
PROPS = {
    "C18": ("atom", ["le", "be"], 160000, 4000000),
    "C16": ("atom+atomimp", ["le", "be", "beport"], 100000, 3000000),
    "C17": ("atom", ["le", "be"], 80000, 2500000),
    "C05": ("mem+atom+memnomax", ["le", "gnuld", "gccO2", "clangO3"], 18000, 420000),
    "C19": ("atom+mem+memls", ["be", "beport", "benothr"], 24000, 700000),
}


def gen_module(kind):
    key = sha(hash_files([os.path.join(VERIF, "tools", "wasmgen.py"), os.path.join(VERIF, "tools", "wasmenc.py")]), kind)
    d, ok = cached_dir("gen", key)
    if not ok:
        shutil.rmtree(d, ignore_errors=True)
        os.makedirs(d)
        run_cmd([sys.executable, os.path.join(VERIF, "tools", "wasmgen.py"), kind, d])
        mark_done(d)
    return d


def build(module, variant):
    """Returns path of the simrt binary for (module, variant)."""
    xl, xlkey = build_translator_plain()
    gen = gen_module(module)
    rt_files = [os.path.join(REPO, "w2c2", "w2c2_base.h")] + [os.path.join(REPO, "futex", f) for f in ("futex.c", "futex.h", "list.c", "list.h", "map.c", "map.h")]
    vfiles = glob_files(ENG, (".c", ".cpp", ".h")) + glob_files(SIMCORE, (".cpp", ".h"))
    extra = ["-DWASM_ENDIAN=WASM_BIG_ENDIAN"] if variant in ("be", "beport", "benothr") else []
    # variant 'benothr': a big-endian embedding without a threads implementation (no WASM_THREADS_*): the header then has its own
    # variants of the atomic accessors (no mutex to build them from); only for the module with a non-shared memory
    thr = [] if variant == "benothr" else ["-DWASM_THREADS_PTHREADS"]
    key = sha(xlkey, hash_files(rt_files), hash_files(vfiles), gen, module, variant, " ".join(extra), "v5")
    d, ok = cached_dir("e1", key)
    exe = os.path.join(d, "simrt")
    if ok:
        return exe
    shutil.rmtree(d, ignore_errors=True)
    os.makedirs(d)
    # translate with the current translator
    shutil.copy(os.path.join(gen, module + ".wasm"), d)
    shutil.copy(os.path.join(gen, module + "_exports.inc"), d)
    # variant 'gnuld': the data segments are embedded through the external 'gnu-ld' mode (a blob linked with ld -r -b binary)
    run_cmd([xl] + (["-d", "gnu-ld"] if variant == "gnuld" else []) + [module + ".wasm", module + ".c"], cwd=d, timeout=120)
    extra_objs = []
    if variant == "gnuld" and os.path.exists(os.path.join(d, "datasegments")):
        run_cmd(["ld", "-r", "-b", "binary", "datasegments", "-o", "ds.o", "-z", "noexecstack"], cwd=d)
        extra_objs = [os.path.join(d, "ds.o")]
    cov = ["-fsanitize-coverage=trace-pc-guard,trace-loads,trace-stores"]
    sut = ["clang", "-O1", "-g", "-w"] + SAN + cov + ["-include", os.path.join(ENG, "sim_atomics.h")] + thr + ["-I" + os.path.join(REPO, "w2c2")] + extra
    cmds = [sut + ["-c", os.path.join(d, module + ".c"), "-o", os.path.join(d, "mod.o")]]
    if variant == "beport":
        # big-endian build with the header's portable mask-and-shift byte-swap macros (what a compiler without bswap builtins gets):
        # the module is compiled through a wrapper that, after the system headers, poses as GCC 4.7 (atomics yes, bswap builtins no)
        with open(os.path.join(d, "mod_port.c"), "w") as f:
            f.write("#include <stddef.h>\n#include <math.h>\n#include <string.h>\n#include <stdlib.h>\n#include <stdint.h>\n#include <assert.h>\n#include <errno.h>\n"
                    "#include <endian.h>\n#include <float.h>\n#include <pthread.h>\n#include <stdio.h>\n#include <limits.h>\n#include <time.h>\n"
                    "#undef __clang__\n#undef __GNUC__\n#undef __GNUC_MINOR__\n#define __GNUC__ 4\n#define __GNUC_MINOR__ 7\n"
                    '#include "%s.c"\n' % module)
        cmds[0] = sut + ["-I" + d, "-c", os.path.join(d, "mod_port.c"), "-o", os.path.join(d, "mod.o")]
    # variants 'gccO2' / 'clangO3': the generated module as a user builds it - an optimising compiler, no instrumentation
    # (the module then has no preemption points of its own; used for the sequential histories of C05 only)
    if variant in ("gccO2", "clangO3"):
        cc = ["gcc", "-O2"] if variant == "gccO2" else ["clang", "-O3"]
        cmds[0] = cc + ["-w", "-DWASM_THREADS_PTHREADS", "-I" + os.path.join(REPO, "w2c2"), "-c", os.path.join(d, module + ".c"), "-o", os.path.join(d, "mod.o")]
    for f in ("futex", "list", "map"):
        cmds.append(sut + (["-DWASM_THREADS_PTHREADS"] if not thr else []) + ["-c", os.path.join(REPO, "futex", f + ".c"), "-o", os.path.join(d, f + ".o")])
    cmds.append(["clang", "-O1", "-g", "-Wno-everything", "-Werror=implicit-function-declaration"] + SAN +
                thr + ["-I" + os.path.join(REPO, "w2c2"), "-I" + d, "-I" + ENG] + extra +
                ["-DMOD=" + module, '-DMOD_HEADER="%s.h"' % module, '-DMOD_EXPORTS="%s_exports.inc"' % module,
                 "-c", os.path.join(ENG, "glue.c"), "-o", os.path.join(d, "glue.o")])
    cxx = ["clang++", "-std=c++17", "-O1", "-g"] + SAN + ["-I" + SIMCORE, "-I" + ENG]
    cmds.append(cxx + ["-c", os.path.join(SIMCORE, "simcore.cpp"), "-o", os.path.join(d, "simcore.o")])
    cmds.append(cxx + ["-c", os.path.join(ENG, "simrt.cpp"), "-o", os.path.join(d, "simrt.o")])
    parallel_cmds(cmds)
    wraps = ["-Wl,--wrap=" + s for s in WRAP_PTHREAD + ["malloc", "calloc", "realloc"]]
    run_cmd(["clang++"] + SAN + [os.path.join(d, o) for o in ("mod.o", "futex.o", "list.o", "map.o", "glue.o", "simcore.o", "simrt.o")] + extra_objs +
            wraps + ["-lpthread", "-lm", "-o", exe])
    mark_done(d)
    prune_cache("e1", keep=24)
    return exe


def be_translator_sample(seed, count, rdir):
    """C19's translator clause, as far as a little-endian host can exercise it: the translator built with WASM_ENDIAN forced to
    big-endian must decode every f32/f64 immediate byte-reversed - consistently, however often an expression is decoded - so its
    output equals the plain translator's output for the module whose float immediates are stored byte-reversed."""
    xl_le, _ = build_translator_plain()
    # sha1.c keeps the host byte order: its digest only orders the functions in the output, and a digest computed with the
    # wrong byte order would merely shuffle them
    xl_be, _ = build_translator_plain(extra_defs=("-DWASM_ENDIAN=1",), not_for=("sha1.c",))
    key = sha(hash_files([os.path.join(VERIF, "tools", "wasmgen.py"), os.path.join(VERIF, "tools", "wasmenc.py")]), "becorpus", str(seed), str(count))
    d, ok = cached_dir("gen", key)
    if not ok:
        shutil.rmtree(d, ignore_errors=True)
        os.makedirs(d)
        run_cmd([sys.executable, os.path.join(VERIF, "tools", "wasmgen.py"), "becorpus", d, str(seed), str(count)])
        mark_done(d)
    bad = []
    n = 0
    work = os.path.join(rdir, "be-sample")
    for i in range(count):
        name = "b%03d" % i
        outs = []
        for xl, mod, sub in ((xl_be, name + ".wasm", "be"), (xl_le, name + ".rev.wasm", "le")):
            od = os.path.join(work, sub)
            shutil.rmtree(od, ignore_errors=True)
            os.makedirs(od)
            shutil.copy(os.path.join(d, mod), os.path.join(od, "m.wasm"))      # the module name is derived from the file name
            r = subprocess.run([xl, "m.wasm", "x.c"], cwd=od, stdout=subprocess.PIPE, stderr=subprocess.PIPE, timeout=120)
            txt = ""
            for fn in ("x.c", "x.h"):
                pth = os.path.join(od, fn)
                txt += open(pth, errors="replace").read() if os.path.exists(pth) else "<missing %s>" % fn
            outs.append((r.returncode, txt))
        n += 1
        # the order of the function definitions follows the digest of the body bytes, which differ between the two inputs by
        # construction: compare the definitions as a set and everything else in order
        def canon(txt):
            funcs, rest, cur = {}, [], None
            lines_ = txt.splitlines()
            for j, ln in enumerate(lines_):
                if cur is None and re.match(r"^[A-Za-z0-9_]+ f\d+\(.*\) \{$", ln):
                    cur = [ln]
                elif cur is not None:
                    cur.append(ln)
                    if ln == "}" and (j + 1 == len(lines_) or lines_[j + 1] == ""):     # a definition is followed by an empty line
                        funcs[cur[0]] = "\n".join(cur); cur = None
                else:
                    rest.append(ln)
            return "\n".join(rest + [funcs[k] for k in sorted(funcs)])
        outs = [(rc, canon(t)) for rc, t in outs]
        if outs[0] != outs[1]:
            la, lb = outs[0][1].splitlines(), outs[1][1].splitlines()
            k = next((j for j in range(min(len(la), len(lb))) if la[j] != lb[j]), min(len(la), len(lb)))
            where = "exit-status" if outs[0][0] != outs[1][0] else ("global-initialiser" if k < len(la) and "i->g" in la[k] else "function-body")
            with open(os.path.join(d, name + ".wasm"), "rb") as f:
                hx = f.read().hex()
            bad.append({"class": where, "module": name + ".wasm", "count": count, "hex": hx,
                        "detail": "module %s: forced-BE translator line %d '%s' vs reversed-immediate reference '%s'" % (name, k + 1, (la[k] if k < len(la) else "<eof>")[:120], (lb[k] if k < len(lb) else "<eof>")[:120])})
    shutil.rmtree(work, ignore_errors=True)
    return n, bad


COMPONENTS = {
    "real": ["C generated by the current /repo translator from tools/wasmgen.py modules", "w2c2/w2c2_base.h", "futex/futex.c", "futex/list.c", "futex/map.c"],
    "stub": ["pthread mutex/cond/thread (simcore simulated objects)", "clock_gettime/clock_getres/time (simulated clock)",
             "malloc/calloc/realloc (fault point over the real allocator)", "trap() and import resolver (harness)"],
}

RULES = {
    "C18": "seeded plans: 2-4 tasks x 2-6 ops of grow(d in {0,1,2,max,max+1})/size/touch on one shared memory (1..6 pages); schedules drawn by random walk or PCT with preemption at every instrumented load/store, atomic and lock operation; a run is non-trivial when >=1 context switch happened inside the workload; distinct = distinct interleaving hash (task, yield kind, object at every switch)",
    "C16": "seeded plans: 1-4 tasks x 3-15 atomic ops (all 63 flavours, two static offsets, mixed widths on 1-2 hot 8-byte words, operands with junk above the access width); LE build (builtins, with the store-buffer model for any access weaker than seq_cst) and forced-BE build (mutex based RMW); non-trivial = >=1 context switch; distinct = distinct interleaving hash",
    "C17": "seeded plans: 2-5 tasks x 1-6 ops of wait32/wait64/notify (static offset 0 and 24)/poke on 1-3 addresses (two colliding in the 1024-bucket map), timeouts {-1,0,us,ms,s}, spurious wake-ups, timer-vs-notify orderings, drain phase; non-trivial = >=1 context switch and >=1 condvar wait; distinct = distinct interleaving hash",
    "C05": "fresh heap memory is pre-filled with 0xBE by the allocator (ASan malloc fill, unlimited size), so 'new pages zeroed' and 'initial memory zeroed' have to be established by the code under test; seeded single-task histories of 20-120 ops: 14 loads x 9 stores (offsets 0/16/65535, unaligned, page-straddling, last byte), 18 composite functions doing store / store of another type or width / load at one address (aligned and unaligned), size, grow (0,1,2,to-max,max+1,0xFFFF,0x10000,0xFFFFFFFF) with injected realloc failures, copy/fill/init; byte-array model compared after every op; a quarter of the plans on the instrumented shared-memory build are concurrent (accesses within page 0 on one simulated thread, grows and size queries on another, preemption at every instrumented access; judged per thread in program order and on the final memory); non-trivial = >=5 executed operations; distinct = distinct plan seed",
    "C19": "C05-style histories and C16-style atomic histories executed on the build with WASM_ENDIAN forced to big-endian, against the byte-reversed reference model; non-trivial = >=5 executed operations (sequential histories) or >=1 context switch (atomic histories); distinct = distinct plan seed / interleaving hash",
}

ASSUME = {
    "C18": ["shared memory of the generated 'atom' module (min 1, max 6 pages), little-endian and forced big-endian build", "sequentially consistent interleavings only (no weak-memory reorderings)", "race detector sees accesses of instrumented code (generated C, w2c2_base.h inlines, futex) to the descriptor fields data,size,pages,maxPages"],
    "C16": ["on the LE build each atomic builtin is one indivisible step as on hardware; the builtin's memory-order argument drives an x86-TSO store-buffer model: a store weaker than seq_cst is delayed in its task's FIFO buffer until the seeded scheduler drains it or the task executes a fence, read-modify-write, seq_cst store or lock operation, loads see the own buffer; load-load/load-store reordering and non-multi-copy-atomic machines are not modelled", "when a store was delayed the total order only has to respect program order (sequential consistency), otherwise real-time order too (linearizability); checked per 8-byte word and jointly over all 2-4 touched words", "histories <= 28 ops, linearizability search budget 1e6 states (over-budget histories are counted, never flagged)"],
    "C17": ["simulated pthread mutex/cond semantics follow POSIX (any waiter may be chosen by signal, spurious wake-ups allowed)", "CLOCK_REALTIME does not jump during a wait"],
    "C05": ["only in-bounds accesses are generated (w2c2 does not bounds-check)", "three generated modules ('mem': non-shared memory of 1..8 pages with 3 passive segments; 'memnomax': the same without a declared maximum; 'atom': shared memory of 1..6 pages whose maximum is reserved up front), the first built four ways: instrumented clang -O1 (arrays and gnu-ld data embedding), plain gcc -O2, plain clang -O3"],
    "C19": ["big-endian behaviour is exercised by forcing WASM_ENDIAN on a little-endian host", "the translator-on-BE-host clause is only sampled without schedules or faults (auxiliary): forced-BE reader vs. plain reader on byte-reversed float immediates, function definitions compared as a set"],
}


def check(prop, tier, seed, replay=None):
    if prop == "C06":
        return check_c06(tier, seed, replay)
    t0 = time.time()
    modspec, variants, nq, nt = PROPS[prop]
    total = nq if tier == "quick" else nt
    if os.environ.get("VERIF_RUNS"):
        total = int(os.environ["VERIF_RUNS"])
    modules = modspec.split("+")
    exes = {}
    for m in modules:
        for v in variants:
            if prop == "C05" and m == "atom" and v in ("gnuld", "clangO3"):
                continue        # the shared-memory module has no data segments; one optimising build of it is enough
            if prop == "C05" and m == "memnomax" and v != "le":
                continue        # same code paths as 'mem', only the declared limits differ
            if (v == "benothr") != (m == "memls"):
                continue        # without a threads implementation the header offers atomic loads and stores only (module 'memls', non-shared memory)
            if m == "atomimp" and v != "le":
                continue        # the module that imports its shared memory differs from 'atom' in what the translator emits, not in the header paths
            exes[(m, v)] = build(m, v)
    build_s = time.time() - t0
    rdir = os.path.join(SCRATCH, "verif-e1-%s-%07d" % (prop, os.getpid()))
    os.makedirs(rdir, exist_ok=True)
    combos = sorted(exes)
    per = max(1, total // len(combos))

    def replay_cmd_for(exe):
        return lambda path: [exe, "--replay", path]

    if replay:
        # pick the binary named in the replay file
        with open(replay, errors="replace") as f:
            txt = f.read()
        if "engine E3" in txt:      # C19's WASI-host sample on the big-endian build
            import e3
            r = e3.replay_be(replay, rdir)
            sys.stdout.write(r.stdout.decode(errors="replace")); sys.stderr.write(r.stderr.decode(errors="replace")[-8000:])
            return 1 if r.returncode != 0 else 0
        be = " be=1" in txt
        mod = "memnomax" if "# module memnomax" in txt else "memls" if "# module memls" in txt else ("mem" if "# module mem" in txt else ("atomimp" if "# module atomimp" in txt else "atom"))
        mv = re.search(r"^# variant (\S+)", txt, re.M)
        var = mv.group(1) if mv and mv.group(1) in variants else ("be" if be else "le")
        exe = exes.get((mod, var)) or build(mod, var)
        r = subprocess.run([exe, "--replay", replay, "--trace"], stdout=subprocess.PIPE, stderr=subprocess.PIPE)
        sys.stdout.write(r.stdout.decode(errors="replace"))
        sys.stderr.write(r.stderr.decode(errors="replace")[-20000:])
        return 1 if r.returncode != 0 else 0

    allres, crashes, internal = [], [], []
    run_wall = 0.0
    combo_of = {}
    for (m, v) in combos:
        exe = exes[(m, v)]
        pool = WorkerPool(lambda s, st, c, exe=exe, v=v: [exe, "--prop", prop, "--seed", str(seed), "--start", str(s), "--stride", str(st),
                                                    "--count", str(c), "--replay-dir", rdir, "--tag", v], per, wall_cap=(600 if tier == "quick" else 7200))
        run_wall += pool.run()
        for r in pool.results:
            r["combo"] = (m, v)
        allres += pool.results
        for c in pool.crashes:
            c["combo"] = (m, v)
        crashes += pool.crashes
        internal += pool.internal

    dump_hashes(prop, allres)
    # ---- aggregate
    by_sig = {}
    steps = switches = memev = simns = ops = 0
    faults, probes = {}, {}
    il_nontrivial = set()
    budget = 0
    lin_over = 0
    for r in allres:
        steps += int(r.get("steps", 0)); switches += int(r.get("switches", 0)); memev += int(r.get("memev", 0))
        simns += int(r.get("simns", 0)); ops += int(r.get("ops", 0))
        for k, n in kv_counts(r.get("faults")).items():
            faults[k] = faults.get(k, 0) + n
        for k, n in kv_counts(r.get("probes")).items():
            probes[k] = probes.get(k, 0) + n
        if r.get("status") == "budget":
            budget += 1
        if r.get("lin") == "-1":
            lin_over += 1
        nontriv = int(r.get("switches", 0)) >= 1
        if prop in ("C05",) or (prop == "C19" and int(r.get("tasks", 1)) <= 1):
            nontriv = int(r.get("ops", 0)) >= 5
            key = "seed:" + r.get("seed", "") + ":" + str(r["combo"])
        else:
            key = r.get("il", "") + ":" + str(r["combo"])
        if prop == "C17":
            nontriv = nontriv and kv_counts(r.get("probes")).get("cond_waits", 0) >= 1
        if nontriv:
            il_nontrivial.add(key)
        if r.get("verdict") == "FAIL":
            for s in r.get("sig", "").split(";"):
                if s and s != "-":
                    by_sig.setdefault(s, []).append(r)
    for c in crashes:
        s = classify_crash(prop, c)
        c["sig"] = s
        c["detail"] = c["stderr"][-1500:]
        by_sig.setdefault(s, []).append(c)

    def make_replay_for(cand):
        if cand.get("replay") and cand["replay"] != "-":
            return cand["replay"]
        # crashed worker: regenerate the plan from its index
        m, v = cand["combo"]
        exe = exes[(m, v)]
        out = subprocess.run([exe, "--prop", prop, "--seed", str(seed), "--start", str(cand["idx"]), "--count", "1", "--dump-plan"],
                             stdout=subprocess.PIPE).stdout.decode()
        path = os.path.join(rdir, "crash-%s-%s-%s.replay" % (m, v, cand["idx"]))
        with open(path, "w") as f:
            f.write("# module %s\n# variant %s\n" % (m, v) + out)
        return path

    def replay_cmd(path):
        with open(path, errors="replace") as f:
            txt = f.read()
        be = " be=1" in txt
        mod = "memnomax" if "# module memnomax" in txt else "memls" if "# module memls" in txt else ("mem" if "# module mem" in txt else ("atomimp" if "# module atomimp" in txt else "atom"))
        mv = re.search(r"^# variant (\S+)", txt, re.M)
        var = mv.group(1) if mv and mv.group(1) in variants else ("be" if be else "le")
        return [exes.get((mod, var), list(exes.values())[0]), "--replay", path]

    def classify(raw, rc):
        return classify_crash(prop, {"stderr": raw, "exit": rc})

    new, known_seen, internal2, lines = handle_violations(prop, by_sig, replay_cmd, make_replay_for, classify)
    internal += internal2
    aux = {}
    if prop == "C19":
        n_mod, bad = be_translator_sample(seed, 24 if tier == "quick" else 300, rdir)
        aux = {"forced_big_endian_translator_modules_compared": n_mod, "mismatches": len(bad)}
        known = load_known()
        # the WASI host on the big-endian build (wasi/wasi.c is one of the property's anchors): C12-C15 workloads, same oracles
        import e3
        wruns, wbad = e3.be_sample(seed, 1500 if tier == "quick" else 40000, rdir)
        aux.update({"wasi_host_big_endian_runs": wruns, "wasi_host_big_endian_failures": len(wbad)})
        seen_w = set()
        for b in wbad:
            for osig in (b.get("sig") or "-").split(";"):
                sig = "C19/wasi-host-big-endian/" + osig.split("/", 1)[-1]
                if osig in ("-", "") or sig in seen_w:
                    continue
                seen_w.add(sig)
                by_sig.setdefault(sig, []).append(b)
                k = match_known(prop, sig, known)
                if k:
                    known_seen.append({"signature": sig, "what": k.get("what", ""), "runs": 1})
                    lines.append("KNOWN-FINDING: property=%s %s [%s]" % (prop, k.get("what", ""), sig))
                    continue
                if len(seen_w) > 4:
                    lines.append("note: further new signature %s not reported in detail" % sig); new += 1
                    continue
                os.makedirs(os.path.join(REPLAYS, prop), exist_ok=True)
                out = os.path.join(REPLAYS, prop, safe_name(sig) + ".replay")
                if b.get("replay") and b["replay"] != "-" and os.path.exists(b["replay"]):
                    shutil.copy(b["replay"], out)
                else:
                    with open(out, "w") as f:
                        f.write("# build be\n# no replay file was produced for run idx %s of workload %s\n" % (b.get("idx"), b.get("prop")))
                lines.append("VIOLATION property=%s replay=%s" % (prop, out))
                lines.append("  signature: %s" % sig)
                lines.append("  detail: (workload of %s on the big-endian build) %s" % (b.get("prop"), (b.get("detail") or "")[:800]))
                new += 1
        for b in bad[:3]:
            sig = "C19/translator/forced-big-endian-reader:" + b["class"]
            by_sig.setdefault(sig, []).append(b)
            k = match_known(prop, sig, known)
            if k:
                known_seen.append({"signature": sig, "what": k.get("what", ""), "runs": 1})
                lines.append("KNOWN-FINDING: property=%s %s [%s]" % (prop, k.get("what", ""), sig))
                continue
            if any(l.endswith(safe_name(sig) + ".replay") for l in lines):
                continue
            os.makedirs(os.path.join(REPLAYS, prop), exist_ok=True)
            out = os.path.join(REPLAYS, prop, safe_name(sig) + ".replay")
            with open(out, "w") as f:
                f.write("# auxiliary, schedule-free check of C19's translator clause: translator built with -DWASM_ENDIAN=1 (big-endian reader on this little-endian host)\n"
                        "# translates MODULE; the plain translator translates the same module with every f32/f64 immediate byte-reversed; both outputs must be identical.\n"
                        "# regenerate: python3 /verif/tools/wasmgen.py becorpus <dir> %d %d ; module %s\n# first difference: %s\nmodule_hex %s\n" % (seed, b["count"], b["module"], b["detail"], b["hex"]))
            lines.append("VIOLATION property=%s replay=%s" % (prop, out))
            lines.append("  signature: %s" % sig)
            lines.append("  detail: %s" % b["detail"][:800])
            new += 1

    # ---- determinism canary: re-run a sample of indices in fresh processes
    canary_bad = 0
    sample_idx = sorted(set(int(r["idx"]) for r in allres if r.get("status") == "ok"))[:: max(1, len(allres) // 24)][:24]
    first = {}
    for r in allres:
        first[(int(r["idx"]), r["combo"])] = r
    for (m, v) in combos:
        exe = exes[(m, v)]
        for idx in sample_idx[:12]:
            o = subprocess.run([exe, "--prop", prop, "--seed", str(seed), "--start", str(idx), "--count", "1", "--no-replay-files"],
                               stdout=subprocess.PIPE, stderr=subprocess.DEVNULL).stdout.decode()
            for line in o.splitlines():
                d = parse_result_line(line)
                if d and (idx, (m, v)) in first:
                    a = first[(idx, (m, v))]
                    if (d.get("log"), d.get("il"), d.get("sig")) != (a.get("log"), a.get("il"), a.get("sig")):
                        canary_bad += 1
    if canary_bad:
        internal.append("INTERNAL: determinism canary: %d of the re-executed runs differ" % canary_bad)

    # ---- samples
    samples = []
    for (m, v) in combos[:2]:
        exe = exes[(m, v)]
        o = subprocess.run([exe, "--prop", prop, "--seed", str(seed), "--start", "0", "--count", "1", "--dump-plan"], stdout=subprocess.PIPE).stdout.decode()
        r0 = first.get((0, (m, v)), {})
        samples.append({"module": m, "variant": v, "plan": o.splitlines()[:40], "result": {k: r0.get(k) for k in ("status", "verdict", "steps", "switches", "ops", "il", "log")}})

    wall = time.time() - t0
    evals = len(allres) + len(crashes)
    cov = {
        "evaluations": evals,
        "distinct_nontrivial": len(il_nontrivial),
        "rule": RULES[prop],
        "samples": samples,
        "simulated_runs": evals,
        "runs_per_hour": int(evals / max(run_wall, 1e-6) * 3600),
        "simulated_seconds": round(simns / 1e9, 6),
        "scheduling_steps": steps, "context_switches": switches, "instrumented_memory_events": memev, "operations": ops,
        "distinct_interleavings_or_plans": len(il_nontrivial),
        "fault_fire_counts": faults,
        "probes": probes,
        "runs_stopped_by_the_simulators_step_budget_not_judged": "%d" % budget,
        "histories_over_the_linearizability_search_budget_not_judged": "%d" % lin_over,
        "builds": ["%s/%s" % c for c in combos],
        "components": COMPONENTS,
        "known_findings_seen": known_seen,
        "violation_signatures": sorted(by_sig.keys()),
        "determinism_canary": {"reexecuted": len(sample_idx[:12]) * len(combos), "mismatches": canary_bad},
        "build_seconds": round(build_s, 1),
        "internal_errors": internal,
        "exhaustive": False,
        "auxiliary": aux,
    }
    write_evidence(prop, tier, seed, "exploration", cov, ASSUME[prop], wall, new)
    for l in lines:
        print(l)
    shutil.rmtree(rdir, ignore_errors=True)
    print("%s: %d runs, %d distinct non-trivial, %d new violation signature(s), %d known, %.1fs" % (prop, evals, len(il_nontrivial), new, len(known_seen), wall))
    if new:
        return 1
    if internal:
        for i in internal:
            print(i)
        return 2
    return 0


# ---------------------------------------------------------------- C06 (siminst): one binary per generated module variant
INST_ENG = os.path.join(VERIF, "engines", "siminst")
C06_RUNS = (60000, 1500000)
C06_VARIANTS = 8


def build_inst(seed, k):
    xl, xlkey = build_translator_plain()
    gkey = sha(hash_files([os.path.join(VERIF, "tools", "wasmgen.py"), os.path.join(VERIF, "tools", "wasmenc.py")]), "inst", str(seed), str(k))
    vfiles = glob_files(INST_ENG, (".c", ".cpp", ".h")) + glob_files(SIMCORE, (".cpp", ".h"))
    key = sha(xlkey, hash_files([os.path.join(REPO, "w2c2", "w2c2_base.h")]), hash_files(vfiles), gkey, "v3")
    d, ok = cached_dir("e1inst", key)
    exe = os.path.join(d, "siminst")
    if ok:
        return exe
    shutil.rmtree(d, ignore_errors=True)
    os.makedirs(d)
    run_cmd([sys.executable, os.path.join(VERIF, "tools", "wasmgen.py"), "inst", d, str(seed), str(k)])
    gnuld = (k % 3 == 2)      # every third variant embeds its data segments through the external 'gnu-ld' mode
    run_cmd([xl] + (["-d", "gnu-ld"] if gnuld else []) + ["inst.wasm", "inst.c"], cwd=d, timeout=120)
    extra_objs = []
    if gnuld and os.path.exists(os.path.join(d, "datasegments")):
        run_cmd(["ld", "-r", "-b", "binary", "datasegments", "-o", "ds.o", "-z", "noexecstack"], cwd=d)
        extra_objs.append(os.path.join(d, "ds.o"))
    with open(os.path.join(d, "inst_desc.inc")) as f:
        desc = f.read()
    flag = lambda n: int(re.search(n + r" = (\d)", desc).group(1))
    defs = ["-DMEM_IMPORTED=%d" % flag("D_MEM_IMPORTED"), "-DTAB_IMPORTED=%d" % flag("D_TAB_IMPORTED"), "-DHAS_START=%d" % flag("D_HAS_START")]
    # the instance struct's field names of an imported memory / table are whatever the translator derived from the import names
    with open(os.path.join(d, "inst.h")) as f:
        hdr = f.read()
    st = re.search(r"typedef struct instInstance \{(.*?)\} instInstance;", hdr, re.S)
    body = st.group(1) if st else ""
    mm = re.search(r"wasmMemory\s*\*\s*(\w+)\s*;", body)
    tm = re.search(r"wasmTable\s*\*\s*(\w+)\s*;", body)
    defs += ["-DMEM_FIELD=%s" % (mm.group(1) if mm else "m0"), "-DTAB_FIELD=%s" % (tm.group(1) if tm else "t0")]
    cov = ["-fsanitize-coverage=trace-pc-guard,trace-loads,trace-stores"]
    inc = ["-I" + os.path.join(REPO, "w2c2"), "-I" + d, "-I" + INST_ENG]
    cmds = [["clang", "-O1", "-g", "-w"] + SAN + cov + ["-include", os.path.join(ENG, "sim_atomics.h"), "-DWASM_THREADS_PTHREADS"] + inc + ["-c", os.path.join(d, "inst.c"), "-o", os.path.join(d, "mod.o")],
            ["clang", "-O1", "-g", "-Wno-everything", "-Werror=implicit-function-declaration"] + SAN + ["-DWASM_THREADS_PTHREADS"] + inc + defs + ["-c", os.path.join(INST_ENG, "glue_inst.c"), "-o", os.path.join(d, "glue.o")],
            ["clang++", "-std=c++17", "-O1", "-g"] + SAN + ["-I" + SIMCORE] + ["-c", os.path.join(SIMCORE, "simcore.cpp"), "-o", os.path.join(d, "simcore.o")],
            ["clang++", "-std=c++17", "-O1", "-g"] + SAN + ["-I" + SIMCORE, "-I" + INST_ENG, "-I" + d, "-c", os.path.join(INST_ENG, "siminst.cpp"), "-o", os.path.join(d, "siminst.o")]]
    parallel_cmds(cmds)
    wraps = ["-Wl,--wrap=" + s for s in WRAP_PTHREAD]
    run_cmd(["clang++"] + SAN + [os.path.join(d, o) for o in ("mod.o", "glue.o", "simcore.o", "siminst.o")] + extra_objs + wraps + ["-lpthread", "-lm", "-o", exe])
    mark_done(d)
    prune_cache("e1inst", keep=100)
    return exe


def check_c06(tier, seed, replay=None):
    import re as _re
    t0 = time.time()
    total = C06_RUNS[0] if tier == "quick" else C06_RUNS[1]
    if os.environ.get("VERIF_RUNS"):
        total = int(os.environ["VERIF_RUNS"])
    nvar = C06_VARIANTS if tier == "quick" else 32
    from concurrent.futures import ThreadPoolExecutor
    build_translator_plain()      # once, before the parallel variant builds share it
    with ThreadPoolExecutor(max_workers=4) as ex:
        exes = list(ex.map(lambda k: build_inst(seed, k), range(nvar)))
    variants = [subprocess.run([e, "--variant"], stdout=subprocess.PIPE).stdout.decode().strip() + ("+gnu-ld" if k % 3 == 2 else "") for k, e in enumerate(exes)]
    build_s = time.time() - t0
    rdir = os.path.join(SCRATCH, "verif-e1i-%07d" % os.getpid())
    os.makedirs(rdir, exist_ok=True)
    if replay:
        with open(replay, errors="replace") as f:
            txt = f.read()
        m = _re.search(r"# exe-index (\d+)", txt)
        exe = exes[int(m.group(1)) % len(exes)] if m else exes[0]
        r = subprocess.run([exe, "--replay", replay], stdout=subprocess.PIPE, stderr=subprocess.PIPE)
        sys.stdout.write(r.stdout.decode(errors="replace")); sys.stderr.write(r.stderr.decode(errors="replace")[-6000:])
        return 1 if r.returncode != 0 else 0
    allres, crashes, internal = [], [], []
    run_wall = 0.0
    per = max(1, total // nvar)
    for k, exe in enumerate(exes):
        pool = WorkerPool(lambda s, st, c, exe=exe: [exe, "--seed", str(seed + k), "--start", str(s), "--stride", str(st), "--count", str(c), "--replay-dir", rdir], per, nworkers=max(1, NCPU // 2), wall_cap=1800)
        run_wall += pool.run()
        for r in pool.results:
            r["k"] = k
        allres += pool.results
        for c in pool.crashes:
            c["k"] = k
        crashes += pool.crashes
        internal += pool.internal
    dump_hashes("C06", allres)
    by_sig = {}
    steps = switches = ops = 0
    distinct = set()
    probes = {}
    for r in allres:
        steps += int(r.get("steps", 0)); switches += int(r.get("switches", 0)); ops += int(r.get("ops", 0))
        for kk, n in kv_counts(r.get("probes")).items():
            probes[kk] = probes.get(kk, 0) + n
        if int(r.get("tasks", 0)) >= 2 and int(r.get("switches", 0)) >= 1:
            distinct.add(r.get("il", "") + ":" + str(r["k"]))
        if r.get("verdict") == "FAIL":
            for s in r.get("sig", "").split(";"):
                if s and s != "-":
                    by_sig.setdefault(s, []).append(r)
    for c in crashes:
        s = classify_crash("C06", c)
        c["sig"] = s; c["detail"] = c["stderr"][-1500:]
        by_sig.setdefault(s, []).append(c)

    def tag(path, k):
        with open(path, errors="replace") as f:
            t = f.read()
        if "# exe-index" not in t:
            with open(path, "w") as f:
                f.write("# exe-index %d\n" % k + t)
        return path

    def make_replay_for(cand):
        if cand.get("replay") and cand["replay"] != "-":
            return tag(cand["replay"], cand["k"])
        exe = exes[cand["k"]]
        out = subprocess.run([exe, "--seed", str(seed + cand["k"]), "--start", str(cand["idx"]), "--count", "1", "--dump-plan"], stdout=subprocess.PIPE).stdout.decode()
        path = os.path.join(rdir, "crash-%d-%s.replay" % (cand["k"], cand["idx"]))
        with open(path, "w") as f:
            f.write("# exe-index %d\n" % cand["k"] + out)
        return path

    def replay_cmd(path):
        with open(path, errors="replace") as f:
            m = _re.search(r"# exe-index (\d+)", f.read())
        return [exes[int(m.group(1)) if m else 0], "--replay", path]

    new, known_seen, internal2, lines = handle_violations("C06", by_sig, replay_cmd, make_replay_for, lambda raw, rc: classify_crash("C06", {"stderr": raw, "exit": rc}))
    internal += internal2
    canary_bad = 0
    sample = [r for r in allres if r.get("status") == "ok"][:: max(1, len(allres) // 16)][:16]
    for a in sample:
        o = subprocess.run([exes[a["k"]], "--seed", str(seed + a["k"]), "--start", a["idx"], "--count", "1", "--no-replay-files"], stdout=subprocess.PIPE, stderr=subprocess.DEVNULL).stdout.decode()
        for line in o.splitlines():
            d = parse_result_line(line)
            if d and (d.get("log"), d.get("il"), d.get("sig")) != (a.get("log"), a.get("il"), a.get("sig")):
                canary_bad += 1
    if canary_bad:
        internal.append("INTERNAL: determinism canary: %d runs differ" % canary_bad)
    o = subprocess.run([exes[0], "--seed", str(seed), "--start", "0", "--count", "1", "--dump-plan"], stdout=subprocess.PIPE).stdout.decode()
    with open(os.path.join(os.path.dirname(exes[0]), "inst_desc.inc")) as f:
        desc0 = f.read().splitlines()[:12]
    samples = [{"variant": variants[0], "module_description": desc0, "plan": o.splitlines()[:40]}]
    wall = time.time() - t0
    evals = len(allres) + len(crashes)
    cov = {"evaluations": evals, "distinct_nontrivial": len(distinct),
           "rule": "per check run %d seeded module variants of the 'inst' family (defined/imported/shared memory, defined/imported table, imported globals as segment offsets and initialisers, 0-5 active data segments incl. overlapping, zero-length, last-byte and all-zero ones, a passive segment, 0-3 element segments, optional start function with a host call); each run: 1-4 client tasks instantiate the module (into a zeroed struct or one pre-filled with 0xA5/0xFF bytes, as the examples' uninitialised stack instances; or as a child of a live instance) on own or shared resolver objects and issue 2-15 calls (global get/set, load/store, size/grow, memory.init, call_indirect, and FreeInstance followed by Instantiate into the same struct against another client's resolver objects) interleaved at operation boundaries by the seeded scheduler; after every operation every live instance, memory object and table is compared with the reference model; non-trivial = >=2 clients and >=1 context switch; distinct = distinct (variant, interleaving hash)" % nvar,
           "samples": samples, "simulated_runs": evals, "runs_per_hour": int(evals / max(run_wall, 1e-6) * 3600), "scheduling_steps": steps, "context_switches": switches, "operations": ops,
           "module_variants": variants, "fault_fire_counts": {}, "probes": probes, "components": {"real": ["C generated by the current /repo translator for each 'inst' variant", "w2c2/w2c2_base.h"], "stub": ["resolver objects, host import and trap (harness)", "scheduler (simcore)"]},
           "known_findings_seen": known_seen, "violation_signatures": sorted(by_sig.keys()), "determinism_canary": {"reexecuted": len(sample), "mismatches": canary_bad},
           "build_seconds": round(build_s, 1), "internal_errors": internal, "exhaustive": False}
    write_evidence("C06", tier, seed, "exploration", cov,
                   ["interleaving happens at operation boundaries only (operations are atomic in the model)", "child instances (newChild) are created only for variants without a shared memory; what a child of a shared-memory instance shares is not judged", "the module family is generated; arbitrary programs are not covered"], wall, new)
    for l in lines:
        print(l)
    shutil.rmtree(rdir, ignore_errors=True)
    print("C06: %d runs over %d module variants, %d distinct non-trivial, %d new violation signature(s), %d known, %.1fs" % (evals, nvar, len(distinct), new, len(known_seen), wall))
    if new:
        return 1
    if internal:
        for i in internal:
            print(i)
        return 2
    return 0
