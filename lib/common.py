"""Shared driver machinery: build cache, worker sharding, result parsing, determinism gate,
replay minimiser (ddmin over plan lines + schedule zeroing), known findings, evidence files."""
import os, sys, json, time, hashlib, subprocess, shutil, fnmatch, re, signal

VERIF = os.path.dirname(os.path.dirname(os.path.abspath(__file__)))
REPO = os.environ.get("VERIF_REPO", "/repo")
BUILD = os.path.join(VERIF, "build")
EVID = os.path.join(VERIF, "evidence")
REPLAYS = os.path.join(VERIF, "replays")
NCPU = int(os.environ.get("VERIF_WORKERS") or min(16, os.cpu_count() or 4))
SCRATCH = "/dev/shm" if os.path.isdir("/dev/shm") and os.access("/dev/shm", os.W_OK) else os.environ.get("TMPDIR", "/var/tmp")

WRAP_PTHREAD = ("pthread_create pthread_join pthread_detach pthread_mutex_init pthread_mutex_destroy pthread_mutex_lock "
                "pthread_mutex_trylock pthread_mutex_unlock pthread_cond_init pthread_cond_destroy pthread_cond_wait "
                "pthread_cond_timedwait pthread_cond_signal pthread_cond_broadcast clock_gettime clock_getres time").split()
SAN = ["-fsanitize=address,undefined", "-fno-sanitize-recover=undefined"]
# the translator properties (C10) speak of memory operations only: no shift/overflow/conversion checks there
SAN_MEM = ["-fsanitize=address,null,bounds,alignment,object-size,nonnull-attribute,returns-nonnull-attribute,vla-bound",
           "-fno-sanitize-recover=null,bounds,alignment,object-size,nonnull-attribute,returns-nonnull-attribute,vla-bound"]


def log(*a):
    print(*a, file=sys.stderr, flush=True)


def sha(*parts):
    h = hashlib.sha1()
    for p in parts:
        if isinstance(p, str):
            p = p.encode()
        h.update(p)
        h.update(b"\0")
    return h.hexdigest()[:16]


def sha256_file(path):
    import hashlib
    with open(path, 'rb') as f:
        return hashlib.sha256(f.read()).hexdigest()


def hash_files(paths):
    h = hashlib.sha1()
    for p in sorted(paths):
        h.update(p.encode())
        try:
            with open(p, "rb") as f:
                h.update(f.read())
        except OSError:
            h.update(b"<missing>")
    return h.hexdigest()[:16]


def glob_files(d, exts):
    out = []
    for root, _, files in os.walk(d):
        for f in files:
            if f.endswith(exts):
                out.append(os.path.join(root, f))
    return out


class BuildError(Exception):
    pass


def run_cmd(cmd, cwd=None, timeout=600, env=None):
    r = subprocess.run(cmd, cwd=cwd, stdout=subprocess.PIPE, stderr=subprocess.STDOUT, timeout=timeout, env=env)
    if r.returncode != 0:
        raise BuildError("command failed (%d): %s\n%s" % (r.returncode, " ".join(cmd), r.stdout.decode(errors="replace")[-4000:]))
    return r.stdout.decode(errors="replace")


def parallel_cmds(cmds, timeout=900):
    """Run shell-free commands in parallel; raise BuildError on the first failure."""
    procs = [(c, subprocess.Popen(c, stdout=subprocess.PIPE, stderr=subprocess.STDOUT)) for c in cmds]
    errs = []
    for c, p in procs:
        try:
            out, _ = p.communicate(timeout=timeout)
        except subprocess.TimeoutExpired:
            p.kill()
            out = b"timeout"
        if p.returncode != 0:
            errs.append("command failed (%s): %s\n%s" % (p.returncode, " ".join(c), out.decode(errors="replace")[-3000:]))
    if errs:
        raise BuildError("\n".join(errs))


def cached_dir(kind, key):
    d = os.path.join(BUILD, kind, key)
    ok = os.path.exists(os.path.join(d, ".done"))
    if ok:
        try:
            os.utime(d, None)      # least-recently-USED pruning
        except OSError:
            pass
    return d, ok


def mark_done(d):
    with open(os.path.join(d, ".done"), "w") as f:
        f.write("ok\n")


def prune_cache(kind, keep=3):
    base = os.path.join(BUILD, kind)
    if not os.path.isdir(base):
        return
    ents = []
    for e in os.listdir(base):
        try:
            ents.append((os.path.getmtime(os.path.join(base, e)), e))
        except OSError:
            pass        # another build (parallel variant builds) is just replacing that directory
    ents.sort()
    for _, e in ents[:-keep]:
        shutil.rmtree(os.path.join(base, e), ignore_errors=True)


# ---------------------------------------------------------------- translator (plain build of /repo)
XL_DEFS = ["-DHAS_PTHREAD=1", "-DHAS_UNISTD=1", "-DHAS_GETOPT=1", "-DHAS_LIBGEN=1", "-DHAS_STRDUP=1", "-DHAS_GLOB=1"]


def xl_sources():
    d = os.path.join(REPO, "w2c2")
    return sorted(os.path.join(d, f) for f in os.listdir(d) if f.endswith(".c") and not f.endswith("_test.c") and f != "test.c")


def build_translator_plain(extra_defs=(), not_for=()):
    srcs = xl_sources()
    hdrs = glob_files(os.path.join(REPO, "w2c2"), (".h",))
    key = sha(hash_files(srcs + hdrs), "plain-gcc-O1", *(tuple(extra_defs) + tuple("not:" + x for x in not_for)))
    d, ok = cached_dir("xl_plain", key)
    exe = os.path.join(d, "w2c2")
    if ok:
        return exe, key
    shutil.rmtree(d, ignore_errors=True)
    os.makedirs(d)
    cmds = [["gcc", "-O1", "-w"] + XL_DEFS + ([] if os.path.basename(s) in not_for else list(extra_defs)) + ["-c", s, "-o", os.path.join(d, os.path.basename(s)[:-2] + ".o")] for s in srcs]
    parallel_cmds(cmds)
    run_cmd(["gcc", "-o", exe] + [os.path.join(d, os.path.basename(s)[:-2] + ".o") for s in srcs] + ["-lpthread", "-lm"])
    mark_done(d)
    prune_cache("xl_plain", keep=6)
    return exe, key


# ---------------------------------------------------------------- result lines
def parse_result_line(line):
    """R k=v k=v ... detail=<rest>"""
    if not line.startswith("R "):
        return None
    rest = line[2:].rstrip("\n")
    detail = ""
    i = rest.find(" detail=")
    if i >= 0:
        detail = rest[i + 8:]
        rest = rest[:i]
    d = {}
    for tok in rest.split(" "):
        if "=" in tok:
            k, v = tok.split("=", 1)
            d[k] = v
    d["detail"] = detail
    return d


def kv_counts(s):
    out = {}
    if not s or s == "-":
        return out
    for item in s.split(","):
        if ":" in item:
            k, v = item.rsplit(":", 1)
            try:
                out[k] = int(v)
            except ValueError:
                pass
    return out


# ---------------------------------------------------------------- known findings
def load_known():
    p = os.path.join(VERIF, "known_findings.json")
    if not os.path.exists(p):
        return []
    with open(p) as f:
        return json.load(f).get("findings", [])


def match_known(prop, sig, known):
    for k in known:
        if k.get("property") == prop and k.get("status") == "known" and fnmatch.fnmatchcase(sig, k.get("signature", "")):
            return k
    return None


# ---------------------------------------------------------------- evidence
def write_evidence(prop, tier, seed, level, coverage, assumptions, wall_s, violations):
    os.makedirs(EVID, exist_ok=True)
    ev = {"property_id": prop, "tier": tier, "seed": int(seed), "level": level, "coverage": coverage,
          "assumptions": assumptions, "wall_s": round(wall_s, 2), "violations": int(violations)}
    tmp = os.path.join(EVID, prop + ".json.tmp")
    with open(tmp, "w") as f:
        json.dump(ev, f, indent=1, sort_keys=False)
    os.replace(tmp, os.path.join(EVID, prop + ".json"))


def safe_name(s):
    return re.sub(r"[^A-Za-z0-9_.+-]+", "_", s)[:120]


# ---------------------------------------------------------------- sharded workers
class WorkerPool:
    """Runs `make_cmd(start, stride, count)` on N shards; restarts a shard after its process died, skipping
    the run it died in (which is recorded as a crash candidate)."""

    def __init__(self, make_cmd, total, nworkers=NCPU, per_run_timeout=60, wall_cap=3600, env=None):
        self.make_cmd = make_cmd
        self.total = total
        self.n = max(1, min(nworkers, total))
        self.results = []      # parsed R dicts
        self.crashes = []      # dicts: idx, exit, signal, stderr_tail
        self.internal = []     # internal errors (watchdog etc.)
        self.wall_cap = wall_cap
        self.env = env
        self.lines_other = []

    def run(self):
        t0 = time.time()
        shards = []
        for w in range(self.n):
            cnt = (self.total - w + self.n - 1) // self.n
            if cnt > 0:
                shards.append({"w": w, "next": w, "left": cnt})
        active = {}
        import selectors
        sel = selectors.DefaultSelector()

        def start(sh):
            cmd = self.make_cmd(sh["next"], self.n, sh["left"])
            p = subprocess.Popen(cmd, stdout=subprocess.PIPE, stderr=subprocess.PIPE, env=self.env)
            sh["p"] = p
            sh["buf"] = b""
            sh["last_idx"] = None
            os.set_blocking(p.stdout.fileno(), False)
            sel.register(p.stdout, selectors.EVENT_READ, sh)
            active[sh["w"]] = sh

        for sh in shards:
            start(sh)
        while active:
            if time.time() - t0 > self.wall_cap:
                for sh in list(active.values()):
                    sh["p"].kill()
                self.internal.append("wall-clock cap of %ds reached" % self.wall_cap)
                break
            for key, _ in sel.select(timeout=1.0):
                sh = key.data
                try:
                    data = sh["p"].stdout.read()
                except BlockingIOError:
                    data = b""
                if data:
                    sh["buf"] += data
                    self._consume(sh)
                elif data == b"" or data is None:
                    if sh["p"].poll() is not None:
                        self._finish(sh, sel, active, start)
            for sh in list(active.values()):
                if sh["p"].poll() is not None:
                    # drain
                    try:
                        data = sh["p"].stdout.read()
                        if data:
                            sh["buf"] += data
                            self._consume(sh)
                    except (BlockingIOError, ValueError):
                        pass
                    self._finish(sh, sel, active, start)
        return time.time() - t0

    def _consume(self, sh):
        while b"\n" in sh["buf"]:
            line, sh["buf"] = sh["buf"].split(b"\n", 1)
            s = line.decode(errors="replace")
            r = parse_result_line(s)
            if r is not None and "idx" in r:
                self.results.append(r)
                idx = int(r["idx"])
                sh["last_idx"] = idx
                done = (idx - sh["next"]) // self.n + 1
                sh["done_in_proc"] = done
            elif s.strip():
                self.lines_other.append(s)

    def _finish(self, sh, sel, active, start):
        if sh["w"] not in active:
            return
        p = sh["p"]
        try:
            sel.unregister(p.stdout)
        except (KeyError, ValueError):
            pass
        err = p.stderr.read().decode(errors="replace")
        p.stdout.close()
        p.stderr.close()
        rc = p.returncode
        del active[sh["w"]]
        done = sh.get("done_in_proc", 0)
        sh["done_in_proc"] = 0
        if rc == 0:
            return
        # the process died: runs [next, next+done*stride) completed (for exits 91/92/93 the last R line is the dying run)
        if rc in (91, 92, 93):
            consumed = done
        else:
            consumed = done + 1
            idx = sh["next"] + done * self.n
            if rc == 94:
                self.internal.append("watchdog in run idx=%d: %s" % (idx, err[-500:]))
            elif rc in (96, 97, 98, 99):
                self.internal.append("harness error exit=%d idx=%d: %s" % (rc, idx, err[-800:]))
            else:
                self.crashes.append({"idx": idx, "exit": rc, "stderr": err[-6000:]})
        sh["next"] += consumed * self.n
        sh["left"] -= consumed
        if sh["left"] > 0:
            start(sh)


def classify_crash(prop, c):
    """Signature for a died worker: sanitizer report or signal."""
    err = c["stderr"]
    rc = c["exit"]
    m = re.search(r"ERROR: AddressSanitizer: ([A-Za-z0-9_-]+)", err)
    site = ""
    # first SUT frame (a /repo path or generated module) gives the site
    for fm in re.finditer(r"#\d+ 0x[0-9a-f]+ in (\S+) (\S+?):(\d+)", err):
        fn, path = fm.group(1), fm.group(2)
        if "/simcore/" in path or "/engines/" in path or path.startswith("/usr") or "sanitizer" in path or "compiler-rt" in path:
            continue
        site = fn
        break
    if m:
        kind = m.group(1)
        if kind == "SEGV":
            return "%s/crash/SEGV:%s" % (prop, site or "?")
        return "%s/asan/%s:%s" % (prop, kind, site or "?")
    m = re.search(r"runtime error: ([^\n]+)", err)
    if m:
        return "%s/ubsan/%s:%s" % (prop, safe_name(m.group(1))[:60], site or "?")
    if rc < 0:
        return "%s/crash/signal%d" % (prop, -rc)
    return "%s/crash/exit%d" % (prop, rc)


# ---------------------------------------------------------------- replay, gate, minimise
def run_replay(replay_cmd, path, timeout=120, env=None):
    """Returns (sigs:set, loghash, raw_output, exitcode)."""
    try:
        r = subprocess.run(replay_cmd(path), stdout=subprocess.PIPE, stderr=subprocess.PIPE, timeout=timeout, env=env)
    except subprocess.TimeoutExpired:
        return set(["<timeout>"]), "", "timeout", -999
    out = r.stdout.decode(errors="replace")
    err = r.stderr.decode(errors="replace")
    sigs, lh = set(), ""
    for line in out.splitlines():
        d = parse_result_line(line)
        if d:
            lh = d.get("log", "")
            if d.get("verdict") == "FAIL":
                for s in d.get("sig", "").split(";"):
                    if s and s != "-":
                        sigs.add(s)
    return sigs, lh, out + "\n" + err, r.returncode


def gate(replay_cmd, path, want_sig, classify=None, env=None):
    """Replays twice in fresh processes; both must show want_sig and the same log hash."""
    res = []
    for _ in range(2):
        sigs, lh, raw, rc = run_replay(replay_cmd, path, env=env)
        if classify and not sigs and rc not in (0, 1):
            sigs = set([classify(raw, rc)])
        res.append((sigs, lh))
    ok = want_sig in res[0][0] and want_sig in res[1][0] and res[0][1] == res[1][1]
    return ok, res


def minimise(replay_cmd, path, want_sig, out_path, classify=None, budget=150, env=None):
    """ddmin over 'op' and 'fault' lines, then zero schedule decisions in chunks; keeps want_sig reproducing."""
    with open(path, errors="replace") as f:
        lines = f.read().splitlines()
    tries = [0]
    tmp = out_path + ".try"

    def test(ls):
        if tries[0] >= budget:
            return False
        tries[0] += 1
        with open(tmp, "w") as f:
            f.write("\n".join(ls) + "\n")
        sigs, lh, raw, rc = run_replay(replay_cmd, tmp, timeout=60, env=env)
        if classify and not sigs and rc not in (0, 1):
            sigs = set([classify(raw, rc)])
        return want_sig in sigs

    def removable(i, l):
        return l.startswith("op ") or l.startswith("fault ") or l.startswith("file ") or l.startswith("arg ")

    # ddmin over removable lines
    idxs = [i for i, l in enumerate(lines) if removable(i, l)]
    n = 2
    while len(idxs) >= 1 and tries[0] < budget:
        chunk = max(1, len(idxs) // n)
        removed_any = False
        for s in range(0, len(idxs), chunk):
            drop = set(idxs[s:s + chunk])
            cand = [l for i, l in enumerate(lines) if i not in drop]
            if test(cand):
                lines = cand
                idxs = [i for i, l in enumerate(lines) if removable(i, l)]
                n = max(n - 1, 2)
                removed_any = True
                break
        if not removed_any:
            if chunk == 1:
                break
            n = min(len(idxs), n * 2)
    # schedule simplification: zero chunks of the decision trace
    for li, l in enumerate(lines):
        if l.startswith("sched "):
            vals = l.split()[1:]
            chunk = max(1, len(vals) // 4)
            while chunk >= 1 and tries[0] < budget:
                progress = False
                for s in range(0, len(vals), chunk):
                    if all(v == "0" for v in vals[s:s + chunk]):
                        continue
                    cand = vals[:s] + ["0"] * len(vals[s:s + chunk]) + vals[s + chunk:]
                    ls = lines[:li] + ["sched " + " ".join(cand)] + lines[li + 1:]
                    if test(ls):
                        vals = cand
                        lines = ls
                        progress = True
                if chunk == 1:
                    break
                chunk = chunk // 2 if not progress or chunk > 1 else chunk
            # drop trailing zeros
            while vals and vals[-1] == "0":
                vals.pop()
            cand = lines[:li] + (["sched " + " ".join(vals)] if vals else []) + lines[li + 1:]
            if test(cand):
                lines = cand
            break
    try:
        os.unlink(tmp)
    except OSError:
        pass
    with open(out_path, "w") as f:
        f.write("# minimised (%d re-executions) for signature %s\n" % (tries[0], want_sig))
        f.write("\n".join(lines) + "\n")
    return tries[0]


def handle_violations(prop, by_sig, replay_cmd, make_replay_for, classify=None, max_new=3, env=None):
    """by_sig: sig -> list of candidate dicts (with 'replay' path or enough to build one).
    Returns (n_new_violations, known_seen, internal_errors, report_lines)."""
    known = load_known()
    new = 0
    known_seen = []
    internal = []
    lines = []
    os.makedirs(os.path.join(REPLAYS, prop), exist_ok=True)
    fast = bool(os.environ.get("VERIF_FAST_VIOLATIONS"))      # tools/run_seeded.py: only "is it caught", no minimisation
    if fast:
        max_new = 1
    for sig in sorted(by_sig):
        k = match_known(prop, sig, known)
        if k:
            known_seen.append({"signature": sig, "what": k.get("what", ""), "runs": len(by_sig[sig])})
            lines.append("KNOWN-FINDING: property=%s %s [%s] (%d runs)" % (prop, k.get("what", ""), sig, len(by_sig[sig])))
            continue
        if new >= max_new:
            lines.append("note: further new signature %s (%d runs) not minimised" % (sig, len(by_sig[sig])))
            new += 1
            continue
        cand = by_sig[sig][0]
        path = make_replay_for(cand)
        if not path or not os.path.exists(path):
            internal.append("no replay file for signature %s" % sig)
            continue
        ok, res = gate(replay_cmd, path, sig, classify, env=env)
        if not ok:
            # try the other candidates before giving up
            for cand2 in by_sig[sig][1:16]:
                path2 = make_replay_for(cand2)
                if path2 and os.path.exists(path2):
                    ok, res = gate(replay_cmd, path2, sig, classify, env=env)
                    if ok:
                        path = path2
                        break
        if not ok:
            internal.append("INTERNAL: nondeterministic replay for signature %s (replay %s): %s" % (sig, path, res))
            continue
        out = os.path.join(REPLAYS, prop, safe_name(sig) + ".replay")
        if fast:
            shutil.copy(path, out)
        else:
            n = minimise(replay_cmd, path, sig, out, classify, env=env)
            ok2, _ = gate(replay_cmd, out, sig, classify, env=env)
            if not ok2:
                shutil.copy(path, out)
        lines.append("VIOLATION property=%s replay=%s" % (prop, out))
        lines.append("  signature: %s" % sig)
        lines.append("  detail: %s" % (cand.get("detail", "")[:1500]))
        new += 1
    lines += unsampled_known_lines(prop, [k["signature"] for k in known_seen])
    return new, known_seen, internal, lines


def unsampled_known_lines(prop, seen_sigs):
    """Every listed (status=known) finding of the property gets its KNOWN-FINDING line, also when this run's sample did
    not happen to reproduce it."""
    out = []
    for k in load_known():
        if k.get("property") != prop or k.get("status") != "known":
            continue
        if any(fnmatch.fnmatchcase(s, k.get("signature", "")) for s in seen_sigs):
            continue
        out.append("KNOWN-FINDING: property=%s %s [%s] (not reproduced by this run's sample)" % (prop, k.get("what", ""), k.get("signature", "")))
    return out


def dump_hashes(prop, allres):
    """Determinism self-test support: VERIF_DUMP_HASHES=<file> makes a check write one line per run
    (index, event-log hash, interleaving hash, verdict signature), sorted, so that two executions of the same seed at
    different worker counts can be diffed (tools/selftest_determinism.py)."""
    path = os.environ.get("VERIF_DUMP_HASHES")
    if not path:
        return
    lines = sorted("%s %s %s %s %s %s" % (r.get("combo", r.get("variant", r.get("k", ""))), r.get("idx"), r.get("log"), r.get("il"), r.get("sig"), r.get("outhash", "")) for r in allres)
    with open(path, "w") as f:
        f.write("\n".join(lines) + "\n")
