"""E2 simxl driver: translator simulation (C09, C10, C20)."""
import os, sys, time, json, shutil, subprocess, re, random
from common import *

ENG = os.path.join(VERIF, "engines", "simxl")
SIMCORE = os.path.join(VERIF, "simcore")
WRAP_XL = ("exit fopen fclose fread fwrite remove unlink unlinkat rename renameat open openat creat mkdir rmdir truncate ftruncate link symlink chdir "
           "freopen tmpfile system popen sysconf").split()

VARIANTS = {
    "default": XL_DEFS,
    "nopthread": [d for d in XL_DEFS if "PTHREAD" not in d],
    "bundled": [d for d in XL_DEFS if not any(x in d for x in ("GETOPT", "LIBGEN", "STRDUP"))],
}
PROPS = {"C09": (30000, 800000), "C10": (40000, 800000), "C20": (30000, 600000)}


def build(variant="default"):
    srcs = xl_sources()
    hdrs = glob_files(os.path.join(REPO, "w2c2"), (".h",))
    vfiles = glob_files(ENG, (".cpp", ".h")) + glob_files(SIMCORE, (".cpp", ".h"))
    key = sha(hash_files(srcs + hdrs), hash_files(vfiles), variant, "v3")
    d, ok = cached_dir("e2", key)
    exe = os.path.join(d, "simxl")
    if ok:
        return exe
    shutil.rmtree(d, ignore_errors=True)
    os.makedirs(d)
    cov = ["-fsanitize-coverage=trace-pc-guard,trace-loads,trace-stores"]
    cmds = []
    objs = []
    for s in srcs:
        o = os.path.join(d, os.path.basename(s)[:-2] + ".o")
        objs.append(o)
        cmds.append(["clang", "-O1", "-g", "-w"] + SAN_MEM + cov + VARIANTS[variant] + ["-include", os.path.join(ENG, "sim_libc_points.h"), "-Dmain=w2c2_main", "-c", s, "-o", o])
    cxx = ["clang++", "-std=c++17", "-O1", "-g"] + SAN + ["-I" + SIMCORE]
    cmds.append(cxx + ["-c", os.path.join(SIMCORE, "simcore.cpp"), "-o", os.path.join(d, "simcore.o")])
    cmds.append(cxx + ["-c", os.path.join(ENG, "simxl.cpp"), "-o", os.path.join(d, "simxl_h.o")])
    parallel_cmds(cmds)
    wraps = ["-Wl,--wrap=" + s for s in WRAP_PTHREAD + WRAP_XL]
    run_cmd(["clang++"] + SAN + objs + [os.path.join(d, "simcore.o"), os.path.join(d, "simxl_h.o")] + wraps + ["-lpthread", "-lm", "-o", exe])
    mark_done(d)
    prune_cache("e2", keep=10)
    return exe


def wasm_function_count(path):
    """Number of defined functions: the vector length of the function section (id 3)."""
    with open(path, "rb") as f:
        b = f.read()
    def uleb(i):
        r = sh = 0
        while True:
            x = b[i]; i += 1
            r |= (x & 0x7F) << sh; sh += 7
            if not x & 0x80:
                return r, i
    i = 8
    while i < len(b):
        sid = b[i]; i += 1
        n, i = uleb(i)
        if sid == 3:
            return uleb(i)[0]
        i += n
    return 0


def corpus(seed, count=96):
    """Synthetic modules (seeded) + a seeded sample of the repo's spec-suite modules + coremark."""
    spec_dir = os.path.join(REPO, "tests", "gen")
    # Valid spec-suite modules: the committed list tools/spec_valid_list.txt (modules loaded by a plain (module ...) command that
    # translated with exit 0 at the pinned tree), NOT "whatever the translator under test accepts today" - a module that
    # stops translating must show up as a violation instead of silently leaving the corpus.
    spec = []
    with open(os.path.join(VERIF, "tools", "spec_valid_list.txt")) as f:
        for line in f:
            if line.startswith("#") or not line.strip():
                continue
            fn, h = line.split()
            path = os.path.join(spec_dir, fn)
            if os.path.exists(path) and sha256_file(path)[:16] == h:
                spec.append(fn)
    key = sha(hash_files([os.path.join(VERIF, "tools", "wasmgen.py"), os.path.join(VERIF, "tools", "wasmenc.py"), os.path.join(VERIF, "tools", "spec_valid_list.txt")]), str(seed), str(count), str(len(spec)), "v7")
    d, ok = cached_dir("xlcorpus", key)
    if ok:
        return d
    shutil.rmtree(d, ignore_errors=True)
    os.makedirs(d)
    run_cmd([sys.executable, os.path.join(VERIF, "tools", "wasmgen.py"), "xlcorpus", d, str(seed), str(count)])
    rnd = random.Random(seed)
    lines, sweep = [], []
    picks = set(rnd.sample(spec, min(48, len(spec))))
    # always present: modules that use the bulk-memory instructions referring to other sections (memory.init, data.drop, table.init)
    picks |= set(f for f in spec if re.match(r"(bulk|memory_init|table_init|data_drop)\.\d+\.wasm$", f) and int(f.split(".")[1]) < 6)
    extra = [os.path.join(REPO, "examples", "coremark", "coremark.wasm")]
    for path in [os.path.join(spec_dir, f) for f in spec] + extra:
        if not os.path.exists(path):
            continue
        # self-contained corpus: copy the module (the repo tree may be a scratch copy that disappears)
        local = "spec_" + os.path.basename(path)
        shutil.copy(path, os.path.join(d, local))
        ent = "%s - %d %d -" % (local, wasm_function_count(path), os.path.getsize(path))
        sweep.append(ent)
        if os.path.basename(path) in picks or path in extra:
            lines.append(ent)
    with open(os.path.join(d, "corpus.txt"), "a") as f:
        f.write("\n".join(lines) + "\n")
    with open(os.path.join(d, "sweep_extra.txt")) as f:
        sweep += [l.strip() for l in f if l.strip()]
    with open(os.path.join(d, "sweep.txt"), "w") as f:
        f.write("\n".join(sweep) + "\n")
    mark_done(d)
    prune_cache("xlcorpus", keep=4)
    return d


def sweep_size(cdir):
    with open(os.path.join(cdir, "sweep.txt")) as f:
        return sum(1 for l in f if l.strip())


COMPONENTS = {
    "real": ["w2c2/*.c of the working tree (main.c reader.c c.c file.c compat.c stringbuilder.c ...), compiled -Dmain=w2c2_main with clang ASan+UBSan",
             "the kernel's tmpfs under /dev/shm (real fopen/fwrite/glob/remove/chdir on a per-run scratch tree)"],
    "stub": ["pthread mutex/cond/create/join (simcore simulated objects, seeded scheduler)", "sysconf(_SC_NPROCESSORS_ONLN) (simulated CPU count)",
             "exit (records the status and ends the simulated process)", "fopen/fclose fault points; record-and-refuse monitor on rename/link/mkdir/truncate/system/..."],
}
RULES = {
    "C09": "groups of 128 runs share (module, options, output path shape, decoys) drawn from a seeded corpus (96 synthetic modules with uneven/duplicated bodies and wild names + 48 spec-suite modules + coremark) and differ in schedule: random walk or PCT over producer and 1-64 workers with preemption at sync ops, I/O calls and instrumented loads/stores, spurious wake-ups, thread-create failures (separate configuration); every run's complete output set is compared byte-for-byte with the unpreempted '-t 1' run of the same group and with the expected file-name set; non-trivial = >=1 context switch and >=2 worker tasks; distinct = distinct (group, interleaving hash)",
    "C10": "seeded (module, options, truncation point k, schedule) samples; quick: k biased to the first 64 bytes and uniform elsewhere, 1 in 4 runs untruncated; thorough adds exhaustive k for every corpus module < 4096 bytes; oracle: exit 0 on valid modules, exit 0 or non-zero with a diagnostic on prefixes, never a signal, sanitizer report, abort or hang; non-trivial = truncated run or run with >=1 context switch; distinct = distinct (module, options, k)",
    "C20": "seeded (module, options incl. -c, 8 output path shapes, 4-13 decoy files from 24 near-miss names inside and outside the output directory, input inside the output directory, fopen/fclose faults) x schedules; every mutating libc call is checked at the call and the scratch tree is diffed before/after; non-trivial = >=1 decoy present in the output directory; distinct = distinct (group, fault plan)",
}
ASSUME = {
    "C09": ["'behaviour' is decided through byte-identity with the canonical single-thread run plus sampled compile/link/execute validity of canonical outputs", "schedules are sequentially consistent interleavings at sync/I-O/instrumented memory points"],
    "C10": ["allocation failures and write errors are not injected (the statement does not quantify over them)", "corpus = generated modules + repo spec-suite modules accepted by the plain translator"],
    "C20": ["the scratch tree is a real tmpfs; calls are observed at libc entry points reachable from the translator objects (a raw syscall would only be seen by the before/after diff)"],
}


def compile_error_class(msg, header_text):
    """Class of a compile failure of generated C: the first error with quoted text masked - except for the recorded finding
    'an import whose module name starts with a digit becomes an identifier starting with a digit', whose gcc wording depends on
    the characters that follow the digit (invalid suffix, exponent has no digits, ...): recognised by the declaration itself."""
    if re.search(r"(^|[\s\*\(,;])\d\w*__\w+\s*\(", header_text, re.M):
        return "import_symbol_starts_with_digit"
    em = re.search(r"error: ([^\n]*)", msg)
    first = re.sub(r"[‘'\"][^’'\"]*[’'\"]", "Q", em.group(1)) if em else "compile-error"
    return safe_name(first)[:60]


def validity_sample(prop, seed, exe, cdir, n, rdir):
    """Auxiliary (schedule-free): canonical outputs of sampled groups must compile file-by-file and link."""
    bad = []
    done = 0
    for i in range(n):
        idx = i * 128
        r = subprocess.run([exe, "--prop", "C09", "--corpus", cdir, "--seed", str(seed), "--start", str(idx), "--count", "1", "--canonical-dump", "--scratch", rdir],
                           stdout=subprocess.PIPE, stderr=subprocess.PIPE, timeout=120)
        m = re.search(r"CANON idx=\d+ exit=(\d+) outhash=\w+ root=(\S+) outdir=(\S+) outbase=(\S+) args=(\S+) dmode=(\S+) files=(.*)", r.stdout.decode())
        if not m:
            continue
        ex, root, outdir, outbase, args = int(m.group(1)), m.group(2), m.group(3), m.group(4), m.group(5)
        created = set(m.group(7).strip().split("|"))
        if m.group(6).startswith("sectcreate"):
            ex = 1      # Mach-O only output (mach/mach.h, getsectdata): cannot be compiled on this host
        top = os.path.dirname(root)
        try:
            if ex != 0:
                continue
            cfiles = [f for f in os.listdir(outdir) if f in created and (f == outbase or re.fullmatch(r"[sd]\d{10}\.c", f))]
            if not outbase.endswith(".c"):
                shutil.copy(os.path.join(outdir, outbase), os.path.join(outdir, "_main_.c"))
                cfiles = [f for f in cfiles if f != outbase] + ["_main_.c"]
            ok = True
            cmds = [["gcc", "-std=gnu89", "-w", "-fsyntax-only", "-DWASM_THREADS_PTHREADS", "-I" + os.path.join(REPO, "w2c2"), "-I" + outdir, os.path.join(outdir, f)] for f in cfiles]
            try:
                parallel_cmds(cmds, timeout=300)
            except BuildError as e:
                ok = False
                msg = str(e)
                hdr = "".join(open(os.path.join(outdir, f), errors="replace").read() for f in os.listdir(outdir) if f.endswith(".h") and f in created)
                bad.append({"idx": idx, "args": args, "error": msg[-900:], "class": compile_error_class(msg, hdr)})
            done += 1
        finally:
            shutil.rmtree(top, ignore_errors=True)
    # pinned inputs (compiled in every run so that recorded findings are reproduced deterministically)
    xl, _ = build_translator_plain()
    for name in ("m903",):
        src = os.path.join(cdir, name + ".wasm")
        if not os.path.exists(src):
            continue
        wd = os.path.join(rdir, "pinned-" + name)
        os.makedirs(wd, exist_ok=True)
        try:
            r = subprocess.run([xl, src, "p.c"], cwd=wd, stdout=subprocess.PIPE, stderr=subprocess.PIPE, timeout=60)
            if r.returncode == 0:
                try:
                    run_cmd(["gcc", "-std=gnu89", "-w", "-fsyntax-only", "-DWASM_THREADS_PTHREADS", "-I" + os.path.join(REPO, "w2c2"), "-I" + wd, "p.c"], cwd=wd)
                except BuildError as e:
                    msg = str(e)
                    hdr = open(os.path.join(wd, "p.h"), errors="replace").read() if os.path.exists(os.path.join(wd, "p.h")) else ""
                    bad.append({"idx": 0, "args": "pinned:" + name, "error": msg[-900:], "class": compile_error_class(msg, hdr)})
                done += 1
        finally:
            shutil.rmtree(wd, ignore_errors=True)
    return done, bad


VARIANT_OPTS = [("default", []), ("-p", ["-p"]), ("-f1", ["-f", "1"]), ("-g", ["-g"]), ("-m", ["-m"]), ("gnu-ld", ["-d", "gnu-ld"]),
                ("-f3-t4-p", ["-f", "3", "-t", "4", "-p"]), ("gnu-ld-f2", ["-d", "gnu-ld", "-f", "2"]),
                # comparison against a reference module: a sibling of the same spec script (most functions dynamic), and the module itself (all static)
                ("-r-sibling", ["-r", "@SIBLING"]), ("-r-sibling-f1", ["-r", "@SIBLING", "-f", "1"]), ("-r-self-f2", ["-r", "@SELF", "-f", "2"])]


def data_shape(path):
    """Classifies a module by its data/element sections (for stratified sampling of the behaviour check)."""
    try:
        with open(path, "rb") as f:
            b = f.read()
    except OSError:
        return "none"
    def uleb(i):
        r = sh = 0
        while True:
            x = b[i]; i += 1
            r |= (x & 0x7F) << sh; sh += 7
            if not x & 0x80:
                return r, i
    i = 8
    shape = "none"
    try:
        while i < len(b):
            sid = b[i]; i += 1
            n, i = uleb(i)
            end = i + n
            if sid == 9:
                cnt, _ = uleb(i)
                if cnt >= 3 and shape == "none":
                    shape = "elem-heavy"
            if sid == 11:
                cnt, j = uleb(i)
                segs = []
                for _ in range(cnt):
                    flag, j = uleb(j)
                    if flag == 2:
                        _, j = uleb(j)
                    if flag in (0, 2):
                        while b[j] != 0x0B:      # constant expression: opcode + one LEB immediate
                            j += 1
                            _, j = uleb(j)
                        j += 1
                    ln, j = uleb(j)
                    j += ln
                    segs.append((flag == 1, ln))
                if any(p and ln > 0 and k + 1 < len(segs) for k, (p, ln) in enumerate(segs)):
                    shape = "passive-then-more"
                elif any(p for p, _ in segs):
                    shape = "has-passive"
                elif len(segs) >= 2:
                    shape = "multi-active"
                elif segs:
                    shape = "single-active"
            i = end
    except IndexError:
        pass
    return shape


def spec_valid_modules():
    spec_dir = os.path.join(REPO, "tests", "gen")
    out = []
    if not os.path.isdir(spec_dir):
        return out
    for j in sorted(f for f in os.listdir(spec_dir) if f.endswith(".json")):
        try:
            with open(os.path.join(spec_dir, j)) as f:
                cmds = json.load(f).get("commands", [])
        except (OSError, ValueError):
            continue
        for c in cmds:
            fn = str(c.get("filename", ""))
            if c.get("type") == "module" and fn.endswith(".wasm") and os.path.exists(os.path.join(spec_dir, "assert_" + fn[:-5] + ".c")):
                out.append(fn[:-5])
    return sorted(set(out))


def build_and_run_variant(xl, name, opts, wd):
    """Translate tests/gen/<name>.wasm with opts, append the repo's assert script, build, run; returns transcript or raises."""
    tests = os.path.join(REPO, "tests")
    os.makedirs(wd, exist_ok=True)
    out_c = "test_%s.c" % name
    if "@SIBLING" in opts or "@SELF" in opts:
        stem, _, num = name.rpartition(".")
        sib = next((c for c in ("%s.%d" % (stem, k) for k in range(0, 40)) if c != name and os.path.exists(os.path.join(tests, "gen", c + ".wasm"))), "address.0")
        opts = [os.path.join(tests, "gen", (sib if o == "@SIBLING" else name) + ".wasm") if o in ("@SIBLING", "@SELF") else o for o in opts]
    r = subprocess.run([xl] + opts + [os.path.join(tests, "gen", name + ".wasm"), out_c], cwd=wd, stdout=subprocess.PIPE, stderr=subprocess.PIPE, timeout=120)
    if r.returncode != 0:
        raise BuildError("translate failed: " + r.stderr.decode(errors="replace")[-400:])
    with open(os.path.join(wd, out_c)) as f:
        gen = f.read()
    with open(os.path.join(tests, "gen", "assert_%s.c" % name)) as f:
        asserts = f.read()
    with open(os.path.join(wd, "full.c"), "w") as f:
        f.write('#include "test.h"\n' + gen + asserts)
    cflags = ["-I" + os.path.join(REPO, "w2c2"), "-I" + tests, "-I" + wd, "-O0", "-w", "-DWASM_THREADS_PTHREADS"]
    srcs = ["full.c"] + sorted(f for f in os.listdir(wd) if re.fullmatch(r"[sd]\d{10}\.c", f))
    objs = []
    extra = []
    if os.path.exists(os.path.join(wd, "datasegments")):
        run_cmd(["ld", "-r", "-b", "binary", "datasegments", "-o", "ds.o"], cwd=wd)
        extra.append("ds.o")
    cmd = ["gcc"] + cflags + srcs + [os.path.join(tests, "main.c")] + [os.path.join(REPO, "futex", f) for f in ("futex.c", "list.c", "map.c")] + extra + ["-o", "t.exe", "-lm", "-lpthread", "-z", "noexecstack"]
    r = subprocess.run(cmd, cwd=wd, stdout=subprocess.PIPE, stderr=subprocess.STDOUT, timeout=300)
    if r.returncode != 0:
        raise BuildError("compile/link failed: " + r.stdout.decode(errors="replace")[-700:])
    r = subprocess.run([os.path.join(wd, "t.exe")], cwd=wd, stdout=subprocess.PIPE, stderr=subprocess.PIPE, timeout=120)
    return "exit=%d\n" % r.returncode + r.stdout.decode(errors="replace") + r.stderr.decode(errors="replace")


def behaviour_sample(seed, n, rdir):
    """Auxiliary (schedule-free): the compiled output of sampled spec-suite modules must behave the same (the repo's own
    assert transcript) under every output-option variant as under the default options."""
    from concurrent.futures import ThreadPoolExecutor
    xl, _ = build_translator_plain()
    mods = spec_valid_modules()
    rnd = random.Random(seed ^ 0xBE4A)
    # stratify by data-segment shape (what the embedding modes differ on): the sample always contains modules with a
    # non-empty passive segment followed by another segment, with any passive segment, and with several active segments
    classes = {}
    for m in mods:
        classes.setdefault(data_shape(os.path.join(REPO, "tests", "gen", m + ".wasm")), []).append(m)
    pick = []
    quota = {"passive-then-more": max(2, n // 3), "has-passive": max(1, n // 6), "multi-active": max(1, n // 6), "elem-heavy": 1}
    for c, q in quota.items():
        pool = classes.get(c, [])
        pick += rnd.sample(pool, min(len(pool), q))
    rest = [m for m in mods if m not in pick]
    pick += rnd.sample(rest, max(0, min(len(rest), n - len(pick))))
    if "bulk.4" in mods:
        pick.append("bulk.4")       # pinned: reproduces the recorded gnu-ld / memory.init finding in every run
    pick = sorted(set(pick))
    jobs = []
    for m in pick:
        for vname, opts in VARIANT_OPTS:
            jobs.append((m, vname, opts))
    res = {}
    def work(j):
        m, vname, opts = j
        wd = os.path.join(rdir, "beh-%s-%s" % (m, safe_name(vname)))
        try:
            return j, build_and_run_variant(xl, m, opts, wd), None
        except (BuildError, subprocess.TimeoutExpired) as e:
            return j, None, str(e)
        finally:
            shutil.rmtree(wd, ignore_errors=True)
    with ThreadPoolExecutor(max_workers=NCPU) as ex:
        for j, out, err in ex.map(work, jobs):
            res[(j[0], j[1])] = (out, err)
    bad = []
    compared = 0
    # -m exists so that several translated modules can be linked into one program: two modules without data segments
    # (data segment names are documented as not prefixed) translated with -m must link together without symbol clashes
    plain = [m for m in classes.get("none", []) if wasm_function_count(os.path.join(REPO, "tests", "gen", m + ".wasm")) >= 2]
    for pi in range(2 if n <= 6 else 12):
        if len(plain) < 2:
            break
        a, b = rnd.sample(plain, 2)
        wd = os.path.join(rdir, "mm-%d" % pi)
        os.makedirs(wd, exist_ok=True)
        try:
            objs = []
            for tag, m in (("a", a), ("b", b)):
                r = subprocess.run([xl, "-m", os.path.join(REPO, "tests", "gen", m + ".wasm"), "%s_%s.c" % (tag, safe_name(m))], cwd=wd, stdout=subprocess.PIPE, stderr=subprocess.PIPE, timeout=120)
                if r.returncode != 0:
                    raise BuildError("translate -m failed: " + r.stderr.decode(errors="replace")[-300:])
                run_cmd(["gcc", "-O0", "-w", "-DWASM_THREADS_PTHREADS", "-I" + os.path.join(REPO, "w2c2"), "-I" + wd, "-c", "%s_%s.c" % (tag, safe_name(m)), "-o", tag + ".o"], cwd=wd)
                objs.append(tag + ".o")
            if a.replace(".", "") != b.replace(".", ""):
                run_cmd(["gcc", "-r", "-nostdlib", "-o", "ab.o"] + objs, cwd=wd)
            compared += 1
        except (BuildError, subprocess.TimeoutExpired) as e:
            bad.append({"module": a + "+" + b, "variant": "-m:two-modules", "class": "multiple-modules-link-fails", "error": str(e)[-700:]})
        finally:
            shutil.rmtree(wd, ignore_errors=True)
    for m in pick:
        base, berr = res[(m, "default")]
        if base is None:
            continue     # default variant itself does not build (e.g. needs other spectest modules): nothing to compare against
        for vname, opts in VARIANT_OPTS[1:]:
            out, err = res[(m, vname)]
            compared += 1
            if out is None:
                em = re.search(r"error: ([^\n]*)", err)
                first = safe_name(re.sub(r"[‘'\"][^’'\"]*[’'\"]", "Q", em.group(1)))[:50] if em else "build-error"
                bad.append({"module": m, "variant": vname + ":" + first, "class": "variant-does-not-build", "error": err[-700:]})
            elif out != base:
                import difflib
                d = "".join(list(difflib.unified_diff(base.splitlines(True), out.splitlines(True), "default", vname))[:20])
                bad.append({"module": m, "variant": vname, "class": "behaviour-differs", "error": d[-900:]})
    return len(pick), compared, bad


_TOK = re.compile(r"[A-Za-z_][A-Za-z0-9_]*|0[xX][0-9a-fA-F]+[uUlL]*|\d+\.?\d*(?:[eE][-+]?\d+)?[uUlLfF]*|\"(?:\\.|[^\"\\])*\"|'(?:\\.|[^'\\])*'|[^\sA-Za-z0-9_]")


def c_tokens(txt):
    """C tokens of a generated file, without the braces of bare compound statements (pretty printing wraps wasm blocks in them)."""
    out, st, last = [], [], None
    for x in _TOK.findall(txt):
        if x == "{":
            bare = last in (";", "{", "}", ":")
            st.append(bare)
            if not bare:
                out.append(x)
        elif x == "}":
            bare = st.pop() if st else False
            if not bare:
                out.append(x)
        else:
            out.append(x)
        last = x
    return out


def pretty_token_sample(cdir, rdir, limit=None):
    """Auxiliary (schedule-free): -p only changes layout. For every corpus and spec module the pretty and the compact output
    (single file, and split with -f 3) must consist of the same C tokens."""
    from concurrent.futures import ThreadPoolExecutor
    xl, _ = build_translator_plain()
    mods = []
    for lst in ("corpus.txt", "sweep.txt"):
        with open(os.path.join(cdir, lst)) as f:
            for line in f:
                w = line.split()
                if w and w[0] not in mods and w[0] not in ("m905.wasm", "m906.wasm"):
                    mods.append(w[0])
    if limit:
        mods = mods[:limit]
    def work(m):
        res = []
        for base in ([], ["-f", "3"]):
            files = {}
            for tag, opts in (("c", base), ("p", base + ["-p"])):
                wd = os.path.join(rdir, "tok-%s-%s%d" % (safe_name(m), tag, len(base)))
                shutil.rmtree(wd, ignore_errors=True)
                os.makedirs(wd)
                r = subprocess.run([xl] + opts + [os.path.join(cdir, m), "x.c"], cwd=wd, stdout=subprocess.PIPE, stderr=subprocess.PIPE, timeout=300)
                files[tag] = (r.returncode, {fn: c_tokens(open(os.path.join(wd, fn), errors="replace").read()) for fn in sorted(os.listdir(wd))})
                shutil.rmtree(wd, ignore_errors=True)
            (rc_c, fc), (rc_p, fp) = files["c"], files["p"]
            if rc_c != rc_p or sorted(fc) != sorted(fp):
                res.append({"module": m, "opts": " ".join(base), "file": "-", "detail": "exit status / file set differ: %s %s vs %s %s" % (rc_c, sorted(fc), rc_p, sorted(fp))})
                continue
            for fn in fc:
                if fc[fn] != fp[fn]:
                    a, b = fc[fn], fp[fn]
                    k = next((i for i in range(min(len(a), len(b))) if a[i] != b[i]), min(len(a), len(b)))
                    res.append({"module": m, "opts": " ".join(base), "file": fn, "detail": "token %d: compact ...%s... pretty ...%s..." % (k, " ".join(a[max(0, k - 8):k + 8]), " ".join(b[max(0, k - 8):k + 8]))})
                    break
        return res
    bad = []
    with ThreadPoolExecutor(max_workers=NCPU) as ex:
        for r in ex.map(work, mods):
            bad += r
    return len(mods), bad


def compile_all_sample(cdir, rdir):
    """Auxiliary (schedule-free): for every corpus and spec module the output translated with default options and with -m
    (symbol prefixing) must compile file by file against its generated header (gcc -fsyntax-only)."""
    from concurrent.futures import ThreadPoolExecutor
    xl, _ = build_translator_plain()
    mods = []
    for lst in ("corpus.txt", "sweep.txt"):
        with open(os.path.join(cdir, lst)) as f:
            for line in f:
                w = line.split()
                if w and w[0] not in mods and w[0] not in ("m905.wasm", "m906.wasm"):
                    mods.append(w[0])
    def work(m):
        res = []
        for tag, opts in (("default", []), ("-m", ["-m"])):
            wd = os.path.join(rdir, "cc-%s-%s" % (safe_name(m), safe_name(tag)))
            shutil.rmtree(wd, ignore_errors=True)
            os.makedirs(wd)
            try:
                r = subprocess.run([xl] + opts + [os.path.join(cdir, m), "x.c"], cwd=wd, stdout=subprocess.PIPE, stderr=subprocess.PIPE, timeout=300)
                if r.returncode != 0:
                    continue        # totality is C10's business
                for fn in sorted(os.listdir(wd)):
                    if not fn.endswith(".c"):
                        continue
                    c = subprocess.run(["gcc", "-std=gnu89", "-w", "-fsyntax-only", "-DWASM_THREADS_PTHREADS", "-I" + os.path.join(REPO, "w2c2"), "-I" + wd, fn],
                                       cwd=wd, stdout=subprocess.PIPE, stderr=subprocess.STDOUT, timeout=600)
                    if c.returncode != 0:
                        msg = c.stdout.decode(errors="replace")
                        hdr = open(os.path.join(wd, "x.h"), errors="replace").read() if os.path.exists(os.path.join(wd, "x.h")) else ""
                        res.append({"idx": 0, "args": tag, "error": "module %s translated with '%s': %s" % (m, tag, msg[-700:]), "class": compile_error_class(msg, hdr)})
                        break
            except subprocess.TimeoutExpired:
                res.append({"idx": 0, "args": tag, "error": "module %s translated with '%s': compile timed out" % (m, tag), "class": "compile-timeout"})
            finally:
                shutil.rmtree(wd, ignore_errors=True)
        return res
    bad = []
    with ThreadPoolExecutor(max_workers=NCPU) as ex:
        for r in ex.map(work, mods):
            bad += r
    return len(mods), bad


def variant_sample(seed, exe, cdir, n, rdir):
    """Auxiliary: the canonical output of sampled groups must be byte-identical across translator build
    configurations (default / without pthreads / bundled getopt+dirname+basename+strdup)."""
    from concurrent.futures import ThreadPoolExecutor
    with ThreadPoolExecutor(max_workers=2) as ex:
        others = list(ex.map(build, ["nopthread", "bundled"]))
    bins = [("default", exe, []), ("nopthread", others[0], ["--no-t-option"]), ("bundled", others[1], [])]
    bad = []
    compared = 0
    for i in range(n):
        idx = i * 128 + 64
        hashes = {}
        for name, b, extra in bins:
            r = subprocess.run([b, "--prop", "C09", "--corpus", cdir, "--seed", str(seed), "--start", str(idx), "--count", "1", "--canonical-dump", "--scratch", rdir] + extra,
                               stdout=subprocess.PIPE, stderr=subprocess.PIPE, timeout=120)
            m = re.search(r"CANON idx=\d+ exit=(\d+) outhash=(\w+) root=(\S+)", r.stdout.decode())
            if m:
                hashes[name] = (m.group(1), m.group(2))
                shutil.rmtree(os.path.dirname(m.group(3)), ignore_errors=True)
        if len(hashes) == 3:
            compared += 1
            if len(set(hashes.values())) != 1:
                bad.append({"idx": idx, "hashes": hashes})
    return compared, bad


def check(prop, tier, seed, replay=None):
    t0 = time.time()
    nq, nt = PROPS[prop]
    total = nq if tier == "quick" else nt
    if os.environ.get("VERIF_RUNS"):
        total = int(os.environ["VERIF_RUNS"])
    exe = build("default")
    cdir = corpus(seed)
    build_s = time.time() - t0
    rdir = os.path.join(SCRATCH, "verif-e2d-%s-%07d" % (prop, os.getpid()))
    os.makedirs(rdir, exist_ok=True)

    exe_bundled = build("bundled") if prop == "C20" else None     # translator with its own getopt/dirname/basename/strdup (no libgen.h etc.)

    def replay_cmd(path):
        with open(path, errors="replace") as f:
            tagged = "# build bundled" in f.read()
        return [exe_bundled if (tagged and exe_bundled) else exe, "--replay", path, "--scratch", rdir]

    if replay:
        r = subprocess.run(replay_cmd(replay), stdout=subprocess.PIPE, stderr=subprocess.PIPE)
        sys.stdout.write(r.stdout.decode(errors="replace"))
        sys.stderr.write(r.stderr.decode(errors="replace")[-8000:])
        shutil.rmtree(rdir, ignore_errors=True)
        return 1 if r.returncode != 0 else 0

    pools = []
    def mk(extra):
        return lambda s, st, c: [exe, "--prop", prop, "--corpus", cdir, "--seed", str(seed), "--start", str(s), "--stride", str(st), "--count", str(c),
                                 "--replay-dir", rdir, "--scratch", rdir] + extra
    main_total = total - total // 4 if exe_bundled else total
    pool = WorkerPool(mk([]), main_total, wall_cap=(900 if tier == "quick" else 7200))
    run_wall = pool.run()
    allres, crashes, internal = list(pool.results), list(pool.crashes), list(pool.internal)
    for r in allres:
        r["variant"] = "default"
    if exe_bundled:
        # a quarter of the runs (other indices) on the build that uses the translator's own dirname()/basename()/getopt()/strdup()
        def mkb(s_, st, c):
            return [exe_bundled, "--prop", prop, "--corpus", cdir, "--seed", str(seed), "--start", str(main_total + s_), "--stride", str(st), "--count", str(c), "--replay-dir", rdir, "--scratch", rdir]
        poolb = WorkerPool(mkb, total // 4, wall_cap=(900 if tier == "quick" else 7200))
        run_wall += poolb.run()
        for r in poolb.results:
            r["variant"] = "bundled"
            if r.get("replay") and r["replay"] != "-" and os.path.exists(r["replay"]):
                with open(r["replay"], "a") as f:
                    f.write("# build bundled\n")
        allres += poolb.results; crashes += poolb.crashes; internal += poolb.internal
    if prop == "C10":
        # every valid spec-suite module once, untruncated, under a seeded option combination and schedule
        pool3 = WorkerPool(mk(["--sweep"]), sweep_size(cdir), wall_cap=1800)
        run_wall += pool3.run()
        for r in pool3.results:
            r["variant"] = "sweep"        # other command line: not part of the determinism canary's re-execution below
        allres += pool3.results; crashes += pool3.crashes; internal += pool3.internal
    if prop == "C10" and tier == "thorough":
        # exhaustive truncation points for the small corpus modules (groups of 4096 indices)
        ngroups = int(os.environ.get("VERIF_C10_GROUPS", "48"))
        pool2 = WorkerPool(mk(["--c10-enum"]), ngroups * 4096, wall_cap=7200)
        run_wall += pool2.run()
        for r in pool2.results:
            r["variant"] = "enum"
        allres += pool2.results; crashes += pool2.crashes; internal += pool2.internal

    dump_hashes(prop, allres)
    by_sig = {}
    steps = switches = memev = simns = 0
    faults, probes = {}, {}
    distinct = set()
    budget = skipped = 0
    for r in allres:
        if r.get("status") == "skip":
            skipped += 1
            continue
        steps += int(r.get("steps", 0)); switches += int(r.get("switches", 0)); memev += int(r.get("memev", 0)); simns += int(r.get("simns", 0))
        for k, n in kv_counts(r.get("faults")).items():
            faults[k] = faults.get(k, 0) + n
        pr = kv_counts(r.get("probes"))
        for k, n in pr.items():
            probes[k] = probes.get(k, 0) + n
        if r.get("status") == "budget":
            budget += 1
        sw = int(r.get("switches", 0))
        if prop == "C09":
            nontriv = sw >= 1 and int(r.get("tasks", 0)) >= 3
        elif prop == "C10":
            nontriv = pr.get("truncated", 0) == 1 or sw >= 1
        else:
            nontriv = pr.get("decoys", 0) >= 1
        if nontriv:
            distinct.add(r.get("il", "") + ":" + r.get("outhash", "") + ":" + str(pr.get("io_faults", 0)) if prop != "C10" else r.get("seed"))
        if r.get("verdict") == "FAIL":
            for s in r.get("sig", "").split(";"):
                if s and s != "-":
                    by_sig.setdefault(s, []).append(r)
    for c in crashes:
        s = "%s/harness-worker-died/exit%s" % (prop, c["exit"])
        internal.append("worker died outside a simulated child: exit=%s idx=%s %s" % (c["exit"], c["idx"], c["stderr"][-400:]))

    aux = {}
    if prop == "C09":
        n = 12 if tier == "quick" else 150
        done, bad = validity_sample(prop, seed, exe, cdir, n, rdir)
        aux = {"canonical_outputs_compiled": done, "compile_failures": len(bad)}
        nm, compared, bbad = behaviour_sample(seed, 6 if tier == "quick" else 80, rdir)
        aux.update({"behaviour_modules": nm, "behaviour_variant_comparisons": compared, "behaviour_failures": len(bbad), "behaviour_variants": [v for v, _ in VARIANT_OPTS]})
        ncc, cbad = compile_all_sample(cdir, rdir)
        aux.update({"modules_compiled_default_and_prefixed": ncc, "compile_failures_all_modules": len(cbad)})
        seen_cls = set(b["class"] for b in bad)
        for b in cbad:
            if b["class"] not in seen_cls or len(seen_cls) < 4:
                seen_cls.add(b["class"]); bad.append(b)
        ntok, tbad = pretty_token_sample(cdir, rdir)
        aux.update({"pretty_vs_compact_modules_token_compared": ntok, "pretty_vs_compact_token_mismatches": len(tbad)})
        for b in tbad[:6]:
            cls = "header" if b["file"].endswith(".h") else ("implementation-file" if re.fullmatch(r"[sd]\d{10}\.c", b["file"]) else "main-file")
            bbad.append({"module": b["module"][:-5] if b["module"].endswith(".wasm") else b["module"], "variant": "-p-tokens:" + cls, "class": "pretty-output-differs-in-tokens",
                         "error": "%s (%s) %s: %s" % (b["module"], b["opts"] or "single file", b["file"], b["detail"])})
        if True:
            # translator build configurations (no pthreads: sequential writer, no -t option; bundled getopt/dirname/basename/strdup)
            vc, vbad = variant_sample(seed, exe, cdir, 10 if tier == "quick" else 48, rdir)
            aux.update({"build_variant_groups_compared": vc, "build_variant_mismatches": len(vbad)})
            for b in vbad:
                by_sig.setdefault("C09/behaviour/build-variant-output-differs", []).append({"idx": b["idx"], "detail": "canonical output differs between translator build configurations: %s" % b["hashes"], "replay": None,
                                  "behaviour": {"module": "group-%d" % b["idx"], "variant": "build-variants", "error": str(b["hashes"])}})
        for b in bbad:
            sig = "C09/behaviour/%s:%s" % (b["class"], b["variant"])
            by_sig.setdefault(sig, []).append({"idx": 0, "detail": "module tests/gen/%s.wasm variant %s: %s" % (b["module"], b["variant"], b["error"]), "replay": None, "behaviour": b})
        for b in bad:
            sig = "C09/validity/emitted-file-does-not-compile:" + b["class"]
            by_sig.setdefault(sig, []).append({"idx": b["idx"], "detail": b["error"], "replay": None, "validity": True})

    def make_replay_for(cand):
        if cand.get("replay") and cand["replay"] != "-":
            return cand["replay"]
        if cand.get("behaviour"):
            b = cand["behaviour"]
            path = os.path.join(rdir, "behaviour-%s-%s.replay" % (b["module"], safe_name(b["variant"])))
            with open(path, "w") as f:
                f.write("# behaviour check (auxiliary, schedule-free): translate tests/gen/%s.wasm with default options and with variant %s,\n# append tests/gen/assert_%s.c, build with tests/main.c and futex/*.c, run both and diff the transcripts\n# %s\n" % (b["module"], b["variant"], b["module"], b["error"].replace("\n", "\n# ")))
            return path
        if cand.get("validity"):
            path = os.path.join(rdir, "validity-%s.replay" % cand["idx"])
            out = subprocess.run([exe, "--prop", "C09", "--corpus", cdir, "--seed", str(seed), "--start", str(cand["idx"]), "--count", "1", "--dump-plan"], stdout=subprocess.PIPE).stdout.decode()
            with open(path, "w") as f:
                f.write("# validity failure (compile of canonical output): %s\n" % cand["detail"][:500].replace("\n", " ") + out)
            return path
        return None

    # validity failures are reported without the replay gate (they are deterministic compile errors of canonical output)
    gate_sigs = {s: v for s, v in by_sig.items() if not s.startswith("C09/validity/") and not s.startswith("C09/behaviour/")}
    new, known_seen, internal2, lines = handle_violations(prop, gate_sigs, replay_cmd, make_replay_for)
    internal += internal2
    known = load_known()
    late_seen = [s for s in by_sig if (s.startswith("C09/validity/") or s.startswith("C09/behaviour/")) and match_known(prop, s, known)]
    lines = [l for l in lines if not (l.startswith("KNOWN-FINDING") and "not reproduced" in l and any(("[%s]" % match_known(prop, s, known)["signature"]) in l for s in late_seen))]
    for s, v in by_sig.items():
        if not s.startswith("C09/validity/") and not s.startswith("C09/behaviour/"):
            continue
        k = match_known(prop, s, known)
        if k:
            known_seen.append({"signature": s, "what": k.get("what", ""), "runs": len(v)})
            lines.append("KNOWN-FINDING: property=%s %s [%s]" % (prop, k.get("what", ""), s))
        else:
            os.makedirs(os.path.join(REPLAYS, prop), exist_ok=True)
            out = os.path.join(REPLAYS, prop, safe_name(s) + ".replay")
            shutil.copy(make_replay_for(v[0]), out)
            lines.append("VIOLATION property=%s replay=%s" % (prop, out))
            lines.append("  signature: %s" % s)
            lines.append("  detail: %s" % v[0]["detail"][:1200])
            new += 1

    # determinism canary
    canary_bad = 0
    canary_which = []
    okres = [r for r in allres if r.get("status") == "ok" and r.get("variant", "default") == "default"]
    sample = okres[:: max(1, len(okres) // 16)][:16]
    for a in sample:
        o = subprocess.run([exe, "--prop", prop, "--corpus", cdir, "--seed", str(seed), "--start", a["idx"], "--count", "1", "--no-replay-files", "--scratch", rdir],
                           stdout=subprocess.PIPE, stderr=subprocess.DEVNULL).stdout.decode()
        for line in o.splitlines():
            d = parse_result_line(line)
            if d and (d.get("log"), d.get("il"), d.get("sig"), d.get("outhash")) != (a.get("log"), a.get("il"), a.get("sig"), a.get("outhash")):
                canary_bad += 1
                canary_which.append("idx %s: %s -> %s" % (a["idx"], (a.get("log"), a.get("il"), a.get("sig"), a.get("outhash")), (d.get("log"), d.get("il"), d.get("sig"), d.get("outhash"))))
    if canary_bad:
        internal.append("INTERNAL: determinism canary: %d of %d re-executed runs differ (%s)" % (canary_bad, len(sample), "; ".join(canary_which)))

    samples = []
    o = subprocess.run([exe, "--prop", prop, "--corpus", cdir, "--seed", str(seed), "--start", "0", "--count", "1", "--dump-plan"], stdout=subprocess.PIPE).stdout.decode()
    r0 = next((r for r in allres if r.get("idx") == "0"), {})
    samples.append({"plan": o.splitlines()[:30], "result": {k: r0.get(k) for k in ("status", "verdict", "steps", "switches", "tasks", "exit", "nout", "outhash")}})

    wall = time.time() - t0
    evals = len(allres) - skipped
    level = "fault_enumeration" if prop == "C10" else "exploration"
    cov = {
        "evaluations": evals, "distinct_nontrivial": len(distinct), "rule": RULES[prop], "samples": samples,
        "simulated_runs": evals, "runs_per_hour": int(evals / max(run_wall, 1e-6) * 3600), "simulated_seconds": round(simns / 1e9, 6),
        "scheduling_steps": steps, "context_switches": switches, "instrumented_memory_events": memev,
        "distinct_interleavings_or_plans": len(distinct), "fault_fire_counts": faults, "probes": probes, "runs_stopped_by_the_simulators_step_budget_not_judged": "%d" % budget,
        "components": COMPONENTS, "known_findings_seen": known_seen, "violation_signatures": sorted(by_sig.keys()),
        "determinism_canary": {"reexecuted": len(sample), "mismatches": canary_bad}, "build_seconds": round(build_s, 1),
        "internal_errors": internal, "exhaustive": False, "auxiliary": aux,
    }
    write_evidence(prop, tier, seed, level, cov, ASSUME[prop], wall, new)
    for l in lines:
        print(l)
    shutil.rmtree(rdir, ignore_errors=True)
    print("%s: %d runs, %d distinct non-trivial, %d new violation signature(s), %d known, %.1fs" % (prop, evals, len(distinct), new, len(known_seen), wall))
    if new:
        return 1
    if internal:
        for i in internal:
            print(i)
        return 2
    return 0
