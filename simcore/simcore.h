// simcore — deterministic scheduler over parked real threads, simulated clock,
// simulated pthread objects, decision trace, event-log hash.  Shared by all engines.
//
// One task holds the baton at any time; every other task is parked on a private
// semaphore.  All scheduling choices, signal choices, spurious wake-ups, timer
// orderings and memory-preemption countdowns are "decisions" taken from one
// PRNG stream (seeded from the run seed) or, on replay, from a recorded trace.
// A decision value of 0 always means "the boring choice" (keep running the current
// task, wake the first waiter, no spurious wake-up, no preemption), so that a trace
// of zeros is the canonical sequential schedule and the minimiser can zero entries.
#pragma once
#include <stdint.h>
#include <stddef.h>
#include <stdio.h>
#include <vector>
#include <string>

namespace sim {

// ---------------------------------------------------------------- PRNG
static inline uint64_t splitmix64(uint64_t& x) {
    uint64_t z = (x += 0x9E3779B97F4A7C15ull);
    z = (z ^ (z >> 30)) * 0xBF58476D1CE4E5B9ull;
    z = (z ^ (z >> 27)) * 0x94D049BB133111EBull;
    return z ^ (z >> 31);
}
static inline uint64_t mix64(uint64_t a, uint64_t b) {
    uint64_t x = a ^ (b + 0x9E3779B97F4A7C15ull + (a << 6) + (a >> 2));
    return splitmix64(x);
}
struct Rng {
    uint64_t s[4];
    void seed(uint64_t v) { for (int i = 0; i < 4; i++) s[i] = splitmix64(v); }
    static inline uint64_t rotl(uint64_t x, int k) { return (x << k) | (x >> (64 - k)); }
    uint64_t next() {
        uint64_t r = rotl(s[1] * 5, 7) * 9, t = s[1] << 17;
        s[2] ^= s[0]; s[3] ^= s[1]; s[1] ^= s[2]; s[0] ^= s[3]; s[2] ^= t; s[3] = rotl(s[3], 45);
        return r;
    }
    uint32_t below(uint32_t n) { return n ? (uint32_t)(next() % n) : 0; }
    bool chance(double p) { return (next() >> 11) * (1.0 / 9007199254740992.0) < p; }
    uint64_t range(uint64_t lo, uint64_t hi) { return lo + next() % (hi - lo + 1); }
};

// ---------------------------------------------------------------- hashing
static inline uint64_t fnv_step(uint64_t h, uint64_t v) {
    for (int i = 0; i < 8; i++) { h ^= (v >> (i * 8)) & 0xff; h *= 0x100000001b3ull; }
    return h;
}
static const uint64_t FNV_INIT = 0xcbf29ce484222325ull;

// ---------------------------------------------------------------- kinds
enum YieldKind {
    Y_LOCK = 1, Y_UNLOCK, Y_CONDWAIT, Y_SIGNAL, Y_BCAST, Y_SPAWN, Y_JOIN, Y_EXIT,
    Y_MEM, Y_ATOMIC, Y_IO, Y_OP, Y_WAKE, Y_TIME
};
enum FaultKind {
    F_SPURIOUS = 0, F_SIGNAL_CHOICE, F_TIMER_ADVANCE, F_THREAD_CREATE_FAIL, F_ALLOC_FAIL,
    F_SHORT_READ, F_SHORT_WRITE, F_EINTR, F_EIO, F_ENOSPC, F_EMFILE, F_TORN_INPUT,
    F_FCLOSE_FAIL, F_DTYPE_UNKNOWN, F_CLOCK_JUMP, F_PREEMPT_MEM, F_COND_TIMEOUT, F_STORE_DELAYED, F_KIND_COUNT
};
extern const char* const fault_names[F_KIND_COUNT];

enum RunStatus { RS_OK = 0, RS_DEADLOCK = 1, RS_BUDGET = 2 };

struct Config {
    uint64_t seed = 1;
    int policy = 0;             // 0 random walk, 1 PCT
    double switch_prob = 0.1;   // random walk
    int pct_depth = 2;          // PCT priority change points
    uint32_t pct_horizon = 400; // PCT: change points drawn from [0,horizon)
    uint32_t max_steps = 20000;
    double spurious_prob = 0.0; // per scheduling step, when a cond waiter exists
    double timer_prob = 0.02;   // per step: jump the clock past the next deadline
    uint32_t mem_mean = 8;      // mean #memory events between preemption points (0 = none)
    int64_t tick_ns = 1000;     // simulated time per scheduling step
    int64_t epoch_real_ns = 1700000000ll * 1000000000ll;
    int64_t epoch_mono_ns = 1000;
    size_t attr_stack_scale = 8;        // a stack size the code under test asks for (pthread_attr_setstacksize) is honoured, times this factor (instrumented frames are several times larger)
    size_t task_stack_bytes = 1 << 20;  // stack of each simulated task (a real thread); the translator engine asks for what a real thread has
    uint32_t libc_point_every = 0; // every n-th return of an intercepted libc writer (sprintf, strcpy, ...) is a scheduling point; 0 = never
    double sb_drain_prob = 0.3; // per scheduling step while some store buffer is non-empty: drain one delayed store
    bool thread_create_faults = false;
    double thread_create_fail_prob = 0.0;
};

struct Stats {
    uint64_t steps = 0, switches = 0, mem_events = 0, decisions = 0;
    uint64_t il_hash = FNV_INIT;   // interleaving hash: (task, kind, object) at each switch
    uint64_t log_hash = FNV_INIT;  // hash over every logged event
    uint64_t events = 0;
    uint64_t faults[F_KIND_COUNT] = {0};
    int64_t sim_ns = 0;
    int tasks = 0;
    int status = RS_OK;
    // probes
    uint64_t lock_contended = 0, cond_waits = 0, signals_no_waiter = 0, timeouts_fired = 0, unlock_not_owner = 0;
    uint64_t sb_buffered = 0, sb_forwarded = 0, sb_drained_by_scheduler = 0;   // store-buffer model (atomic stores weaker than seq_cst)
};

// Called (with the baton) when the run cannot continue: deadlock or budget.
// The handler must not return (it reports and _exit()s, or longjmps out of the run).
typedef void (*FatalHandler)(int status, const char* detail);

// ---------------------------------------------------------------- API
void begin(const Config& cfg, FatalHandler on_fatal);   // caller becomes task 0
void end();                                             // joins nothing; asserts all finished
Stats& stats();
const Config& config();
bool active();
int  current_task();

typedef void* (*TaskFn)(void*);
int  spawn(TaskFn fn, void* arg, size_t stack_bytes = 0);    // returns task id; child starts parked and runnable (stack_bytes 0: Config.task_stack_bytes)
void join(int task);
void join_all();                     // block task 0 until all other tasks are finished
void yield(int kind, uint64_t obj);  // explicit scheduling point
void atomic_begin();                 // the current task keeps the baton at every scheduling point until atomic_end()
void atomic_end();
void sut_enter();                    // wrappers only simulate while inside SUT code
void sut_leave();
bool in_sut();

// decisions
void     set_replay_trace(const std::vector<uint32_t>& t);
const std::vector<uint32_t>& decision_trace();
uint32_t decide(uint32_t n);         // generic decision in [0,n) (0 = boring), recorded

// logging (never draws from a PRNG, never reads a real clock)
void log_event(const char* tag, uint64_t a = 0, uint64_t b = 0, uint64_t c = 0);
void set_trace_file(FILE* f);        // textual event log (replay mode)
uint64_t next_seq();                 // global event sequence number (for op invoke/return)
uint32_t logical_id(const void* p);  // small id in order of first use
void count_fault(int kind);

// clock
int64_t now_ns();                    // simulated ns since run start
void advance_ns(int64_t d);

// memory / atomic preemption points (called from instrumentation callbacks)
void mem_event(const void* addr, int size, bool is_write);
void atomic_event(const void* addr, int size, int kind);
void libc_write_point();   // called after a libc function wrote a caller-supplied buffer (force-included macros in SUT code)
int atomic_store(void* addr, int size, uint64_t v, int order);            // 1: delayed in the store buffer, 0: caller stores now
int atomic_load(const void* addr, int size, int order, uint64_t* out);    // 1: value forwarded from the own store buffer

// optional access observer (race detector): called for every instrumented access while active
typedef void (*AccessObserver)(int task, const void* addr, int size, bool is_write, bool is_atomic);
void set_access_observer(AccessObserver o, const void* lo, const void* hi);
void set_access_observer2(AccessObserver o, const void* lo, const void* hi);   // a second, independent address range
// synchronisation observer (vector clocks): acquire/release on a logical object
typedef void (*SyncObserver)(int task, uint64_t obj, int what); // what: 0 acquire, 1 release, 2 fork(child=obj), 3 join(child=obj)
void set_sync_observer(SyncObserver o);

// description of blocked tasks (for deadlock reports)
std::string describe_tasks();
int  parked_on_cond_count();
bool task_parked_on_cond(int task);
bool all_others_finished();
bool task_finished(int task);
Config& config_mut();

} // namespace sim
