// simcore implementation. See simcore.h.
#include "simcore.h"
#include <pthread.h>
#include <semaphore.h>
#include <errno.h>
#include <time.h>
#include <string.h>
#include <stdlib.h>
#include <unistd.h>
#include <unordered_map>
#include <algorithm>

extern "C" {
int __real_pthread_create(pthread_t*, const pthread_attr_t*, void* (*)(void*), void*);
int __real_pthread_join(pthread_t, void**);
int __real_pthread_detach(pthread_t);
int __real_pthread_mutex_init(pthread_mutex_t*, const pthread_mutexattr_t*);
int __real_pthread_mutex_destroy(pthread_mutex_t*);
int __real_pthread_mutex_lock(pthread_mutex_t*);
int __real_pthread_mutex_trylock(pthread_mutex_t*);
int __real_pthread_mutex_unlock(pthread_mutex_t*);
int __real_pthread_cond_init(pthread_cond_t*, const pthread_condattr_t*);
int __real_pthread_cond_destroy(pthread_cond_t*);
int __real_pthread_cond_wait(pthread_cond_t*, pthread_mutex_t*);
int __real_pthread_cond_timedwait(pthread_cond_t*, pthread_mutex_t*, const struct timespec*);
int __real_pthread_cond_signal(pthread_cond_t*);
int __real_pthread_cond_broadcast(pthread_cond_t*);
int __real_clock_gettime(clockid_t, struct timespec*);
int __real_clock_getres(clockid_t, struct timespec*);
time_t __real_time(time_t*);
}

namespace sim {

const char* const fault_names[F_KIND_COUNT] = {
    "spurious_wakeup", "signal_choice", "timer_advance", "thread_create_fail", "alloc_fail",
    "short_read", "short_write", "eintr", "eio", "enospc", "emfile", "torn_input",
    "fclose_fail", "dtype_unknown", "clock_jump", "preempt_mem", "cond_timeout", "store_delayed_in_buffer"
};

enum TaskState { T_RUNNABLE, T_BLOCKED_MUTEX, T_BLOCKED_COND, T_BLOCKED_JOIN, T_FINISHED };

struct SimMutex { int owner = -1; uint32_t id = 0; };
struct SimCond { uint32_t id = 0; };

struct Task {
    int id = 0;
    pthread_t th;
    bool has_thread = false;
    sem_t sem;
    TaskState st = T_RUNNABLE;
    const void* wait_obj = nullptr;  // mutex or cond address
    const void* wait_mutex = nullptr;
    int64_t deadline = -1;           // absolute sim ns (realtime domain handled by caller), -1 = none
    bool timed_out = false;
    int join_target = -1;
    uint32_t prio = 0;
    TaskFn fn = nullptr;
    void* arg = nullptr;
    void* ret = nullptr;
    bool detached = false;
    // x86-TSO style FIFO store buffer: atomic stores with a memory order weaker than seq_cst wait here until the
    // scheduler drains them (or the task executes a fence, a read-modify-write, a seq_cst store or a lock operation)
    struct SbEntry { void* addr; int size; uint64_t v; };
    std::vector<SbEntry> sb;
};

static const int MAX_TASKS = 300;

struct State {
    bool active = false;
    Config cfg;
    Stats st;
    FatalHandler on_fatal = nullptr;
    Rng sched;
    std::vector<Task*> tasks;
    int cur = -1;
    std::unordered_map<const void*, SimMutex> mutexes;
    std::unordered_map<const void*, SimCond> conds;
    std::unordered_map<const void*, uint32_t> ids;
    std::vector<uint32_t> trace;
    std::vector<uint32_t> replay;
    size_t replay_pos = 0;
    FILE* trace_fp = nullptr;
    uint64_t seq = 0;
    int64_t now = 0;
    int64_t countdown = 0;
    std::vector<uint32_t> pct_points;
    uint32_t pct_low = 0;
    int atomic_depth = 0;
    uint64_t libc_points = 0;
    AccessObserver acc_obs = nullptr;
    const char* acc_lo = nullptr; const char* acc_hi = nullptr;
    AccessObserver acc_obs2 = nullptr; const char* acc2_lo = nullptr; const char* acc2_hi = nullptr;
    SyncObserver sync_obs = nullptr;
};
static State* G = nullptr;
static __thread int tls_task = -1;
static __thread int tls_in_sut = 0;

bool active() { return G && G->active; }
Stats& stats() { return G->st; }
const Config& config() { return G->cfg; }
int current_task() { return tls_task; }
void sut_enter() { tls_in_sut++; }
void sut_leave() { tls_in_sut--; }
bool in_sut() { return tls_in_sut > 0; }
static inline bool simulating() { return G && G->active && tls_in_sut > 0 && tls_task >= 0; }

void set_replay_trace(const std::vector<uint32_t>& t) { if (!G) G = new State(); G->replay = t; G->replay_pos = 0; }
const std::vector<uint32_t>& decision_trace() { return G->trace; }
void set_trace_file(FILE* f) { if (!G) G = new State(); G->trace_fp = f; }
uint64_t next_seq() { return ++G->seq; }
int64_t now_ns() { return G->now; }
void advance_ns(int64_t d) { G->now += d; }
void count_fault(int kind) { G->st.faults[kind]++; }
void set_access_observer(AccessObserver o, const void* lo, const void* hi) { G->acc_obs = o; G->acc_lo = (const char*)lo; G->acc_hi = (const char*)hi; }
void set_access_observer2(AccessObserver o, const void* lo, const void* hi) { G->acc_obs2 = o; G->acc2_lo = (const char*)lo; G->acc2_hi = (const char*)hi; }
void set_sync_observer(SyncObserver o) { G->sync_obs = o; }

uint32_t logical_id(const void* p) {
    auto it = G->ids.find(p);
    if (it != G->ids.end()) return it->second;
    uint32_t id = (uint32_t)G->ids.size() + 1;
    G->ids.emplace(p, id);
    return id;
}

void log_event(const char* tag, uint64_t a, uint64_t b, uint64_t c) {
    State& g = *G;
    uint64_t h = g.st.log_hash;
    for (const char* p = tag; *p; p++) { h ^= (unsigned char)*p; h *= 0x100000001b3ull; }
    h = fnv_step(h, a); h = fnv_step(h, b); h = fnv_step(h, c);
    h = fnv_step(h, (uint64_t)(int64_t)tls_task);
    g.st.log_hash = h;
    g.st.events++;
    if (g.trace_fp) fprintf(g.trace_fp, "e %llu t%d %s %llu %llu %llu\n", (unsigned long long)g.st.events, tls_task, tag,
                            (unsigned long long)a, (unsigned long long)b, (unsigned long long)c);
}

// A decision: value in [0,n), 0 is the boring choice.  `p_nonzero` = probability of a non-boring value.
static uint32_t decide_p(uint32_t n, double p_nonzero) {
    State& g = *G;
    uint32_t v;
    if (g.replay_pos < g.replay.size()) {
        v = g.replay[g.replay_pos++];
        if (n == 0) v = 0; else if (v >= n) v %= n;
    } else if (n <= 1) {
        v = 0;
    } else {
        v = g.sched.chance(p_nonzero) ? 1 + g.sched.below(n - 1) : 0;
    }
    g.trace.push_back(v);
    g.st.decisions++;
    return v;
}
uint32_t decide(uint32_t n) {
    State& g = *G;
    uint32_t v;
    if (g.replay_pos < g.replay.size()) { v = g.replay[g.replay_pos++]; if (n == 0) v = 0; else if (v >= n) v %= n; }
    else v = g.sched.below(n);
    g.trace.push_back(v);
    g.st.decisions++;
    return v;
}

static void sample_countdown() {
    State& g = *G;
    if (g.cfg.mem_mean == 0) { g.countdown = INT64_MAX; return; }
    // decision value 0 => "never" (huge countdown); otherwise geometric-ish around mem_mean
    uint32_t span = g.cfg.mem_mean * 2 + 1;
    uint32_t v = decide_p(span + 1, 0.999);
    g.countdown = v == 0 ? (1ll << 40) : (int64_t)v;
}

static void park(Task* t) {
    while (sem_wait(&t->sem) != 0 && errno == EINTR) {}
}
static void unpark(Task* t) { sem_post(&t->sem); }

std::string describe_tasks() {
    State& g = *G;
    std::string s;
    char buf[160];
    for (Task* t : g.tasks) {
        const char* stn = t->st == T_RUNNABLE ? "runnable" : t->st == T_BLOCKED_MUTEX ? "blocked-mutex" :
                          t->st == T_BLOCKED_COND ? "blocked-cond" : t->st == T_BLOCKED_JOIN ? "blocked-join" : "finished";
        snprintf(buf, sizeof buf, "t%d:%s", t->id, stn);
        s += buf;
        if (t->st == T_BLOCKED_MUTEX || t->st == T_BLOCKED_COND) {
            snprintf(buf, sizeof buf, "(obj%u", logical_id(t->wait_obj)); s += buf;
            if (t->st == T_BLOCKED_MUTEX) { auto it = g.mutexes.find(t->wait_obj); snprintf(buf, sizeof buf, ",owner=t%d", it == g.mutexes.end() ? -1 : it->second.owner); s += buf; }
            if (t->deadline >= 0) { snprintf(buf, sizeof buf, ",deadline=%lld", (long long)t->deadline); s += buf; }
            s += ")";
        }
        if (t->st == T_BLOCKED_JOIN) { snprintf(buf, sizeof buf, "(t%d)", t->join_target); s += buf; }
        s += " ";
    }
    return s;
}
int parked_on_cond_count() { int n = 0; for (Task* t : G->tasks) if (t->st == T_BLOCKED_COND) n++; return n; }
bool task_parked_on_cond(int task) { return task >= 0 && task < (int)G->tasks.size() && G->tasks[task]->st == T_BLOCKED_COND; }

bool all_others_finished() { for (Task* t : G->tasks) if (t->id != G->cur && t->st != T_FINISHED) return false; return true; }
bool task_finished(int task) { return G->tasks[task]->st == T_FINISHED; }
Config& config_mut() { return G->cfg; }

static void fatal(int status, const char* what) {
    State& g = *G;
    g.st.status = status;
    g.st.sim_ns = g.now;
    std::string d = std::string(what) + ": " + describe_tasks();
    log_event(status == RS_DEADLOCK ? "DEADLOCK" : "BUDGET");
    if (g.trace_fp) { fprintf(g.trace_fp, "# %s\n", d.c_str()); fflush(g.trace_fp); }
    g.on_fatal(status, d.c_str());
    _exit(99); // handler must not return
}

static void sb_drain_one(Task* t) {
    Task::SbEntry e = t->sb.front(); t->sb.erase(t->sb.begin());
    switch (e.size) {
        case 1: __atomic_store_n((uint8_t*)e.addr, (uint8_t)e.v, __ATOMIC_RELAXED); break;
        case 2: __atomic_store_n((uint16_t*)e.addr, (uint16_t)e.v, __ATOMIC_RELAXED); break;
        case 4: __atomic_store_n((uint32_t*)e.addr, (uint32_t)e.v, __ATOMIC_RELAXED); break;
        default: __atomic_store_n((uint64_t*)e.addr, (uint64_t)e.v, __ATOMIC_RELAXED); break;
    }
}
static void sb_flush(Task* t) { while (!t->sb.empty()) sb_drain_one(t); }

// The heart: called by the current task (holding the baton) at every scheduling point.
// The current task may have just changed its own state to blocked/finished.
static void schedule(int kind, uint64_t obj) {
    State& g = *G;
    Task* me = g.tasks[g.cur];
    if (g.atomic_depth > 0 && me->st == T_RUNNABLE) return;
    g.st.steps++;
    g.now += g.cfg.tick_ns;
    g.st.sim_ns = g.now;
    if (g.st.steps > g.cfg.max_steps) fatal(RS_BUDGET, "step budget exceeded");

    // timers that are due
    for (Task* t : g.tasks)
        if (t->st == T_BLOCKED_COND && t->deadline >= 0 && t->deadline <= g.now) {
            t->st = T_RUNNABLE; t->timed_out = true; g.st.timeouts_fired++; count_fault(F_COND_TIMEOUT);
        }
    // maybe jump the clock past the earliest pending deadline although other tasks could run
    {
        int64_t earliest = -1; Task* et = nullptr;
        for (Task* t : g.tasks) if (t->st == T_BLOCKED_COND && t->deadline >= 0 && (earliest < 0 || t->deadline < earliest)) { earliest = t->deadline; et = t; }
        if (et && g.cfg.timer_prob > 0) {
            if (decide_p(2, g.cfg.timer_prob)) {
                g.now = earliest; et->st = T_RUNNABLE; et->timed_out = true; g.st.timeouts_fired++;
                count_fault(F_TIMER_ADVANCE); count_fault(F_COND_TIMEOUT);
            }
        }
    }
    // spurious wake-up of a cond waiter (legal per POSIX)
    if (g.cfg.spurious_prob > 0) {
        int nw = 0; for (Task* t : g.tasks) if (t->st == T_BLOCKED_COND) nw++;
        if (nw) {
            uint32_t v = decide_p((uint32_t)nw + 1, g.cfg.spurious_prob);
            if (v) {
                int k = 0;
                for (Task* t : g.tasks) if (t->st == T_BLOCKED_COND && ++k == (int)v) {
                    t->st = T_RUNNABLE; t->timed_out = false; count_fault(F_SPURIOUS);
                    log_event("spurious", t->id);
                    break;
                }
            }
        }
    }

    // lock operations, thread creation/join/exit are full fences
    if (kind >= Y_LOCK && kind <= Y_EXIT) sb_flush(me);
    // delayed stores: maybe let one task's oldest buffered store reach memory now
    {
        int nb = 0; for (Task* t : g.tasks) if (!t->sb.empty()) nb++;
        if (nb) {
            uint32_t v = decide_p((uint32_t)nb + 1, g.cfg.sb_drain_prob);
            if (v) { int k = 0; for (Task* t : g.tasks) if (!t->sb.empty() && ++k == (int)v) { sb_drain_one(t); g.st.sb_drained_by_scheduler++; log_event("sb-drain", t->id); break; } }
        }
    }

    // runnable set
    Task* cand[MAX_TASKS]; int nc = 0;
    for (Task* t : g.tasks) if (t->st == T_RUNNABLE) cand[nc++] = t;
    if (nc == 0) {
        // jump the clock to the earliest deadline, if any
        int64_t earliest = -1; Task* et = nullptr;
        for (Task* t : g.tasks) if (t->st == T_BLOCKED_COND && t->deadline >= 0 && (earliest < 0 || t->deadline < earliest)) { earliest = t->deadline; et = t; }
        if (!et) {
            bool all_done = true; for (Task* t : g.tasks) if (t->st != T_FINISHED) all_done = false;
            if (all_done) return; // last task finishing
            fatal(RS_DEADLOCK, "deadlock: no runnable task and no pending timer");
        }
        if (earliest > g.now) g.now = earliest;
        et->st = T_RUNNABLE; et->timed_out = true; g.st.timeouts_fired++; count_fault(F_COND_TIMEOUT);
        cand[nc++] = et;
    }

    Task* next = nullptr;
    bool me_runnable = me->st == T_RUNNABLE;
    if (g.cfg.policy == 1) {
        // PCT: highest priority runnable; at change points, drop current priority below all
        for (uint32_t p : g.pct_points) if (p == g.st.steps && me_runnable) { me->prio = g.pct_low ? --g.pct_low : 0; }
        // still record a decision so that traces can override PCT
        uint32_t v = decide_p((uint32_t)nc + 1, 0.0);
        if (v) next = cand[(v - 1) % nc];
        else { for (int i = 0; i < nc; i++) if (!next || cand[i]->prio > next->prio) next = cand[i]; }
    } else {
        // random walk: 0 = stay with current (or first runnable if current cannot run); k = k-th other candidate
        int others = me_runnable ? nc - 1 : nc;
        uint32_t v = (others > 0) ? decide_p((uint32_t)others + (me_runnable ? 1 : 0), me_runnable ? g.cfg.switch_prob : 1.0 - 1.0 / (others)) : decide_p(1, 0);
        if (me_runnable) {
            if (v == 0) next = me;
            else { int k = 0; for (int i = 0; i < nc; i++) if (cand[i] != me && ++k == (int)v) next = cand[i]; }
        } else {
            next = cand[v % nc];
        }
        if (!next) next = cand[0];
    }

    if (next != me) {
        g.st.switches++;
        uint64_t h = g.st.il_hash;
        h = fnv_step(h, (uint64_t)next->id); h = fnv_step(h, (uint64_t)kind); h = fnv_step(h, obj);
        g.st.il_hash = h;
        if (g.trace_fp) fprintf(g.trace_fp, "s %llu t%d->t%d kind=%d obj=%llu\n", (unsigned long long)g.st.steps, me->id, next->id, kind, (unsigned long long)obj);
        g.cur = next->id;
        bool me_finished = me->st == T_FINISHED;
        unpark(next);
        if (!me_finished) park(me);
        // when we come back we hold the baton again
    }
}

void atomic_begin() { if (G) G->atomic_depth++; }
void atomic_end() { if (G && G->atomic_depth > 0) G->atomic_depth--; }

void yield(int kind, uint64_t obj) {
    if (!simulating()) return;
    schedule(kind, obj);
}

// sanitizer coverage also instruments the load/store instruction an atomic builtin becomes: the callback that follows an
// intercepted atomic load/store of the same address belongs to that atomic access and is not a plain access of its own
static __thread const void* tls_atomic_pending = nullptr;
static __thread int tls_atomic_pending_age = 0;
void mem_event(const void* addr, int size, bool is_write) {
    if (!simulating()) return;
    if (tls_atomic_pending) {
        // (the pointer expression is evaluated again for the builtin, which may load the base pointer in between)
        if (tls_atomic_pending == addr) { tls_atomic_pending = nullptr; return; }
        if (++tls_atomic_pending_age > 4) tls_atomic_pending = nullptr;
    }
    State& g = *G;
    g.st.mem_events++;
    if (g.acc_obs && (const char*)addr < g.acc_hi && (const char*)addr + size > g.acc_lo) g.acc_obs(tls_task, addr, size, is_write, false);
    if (g.acc_obs2 && (const char*)addr < g.acc2_hi && (const char*)addr + size > g.acc2_lo) g.acc_obs2(tls_task, addr, size, is_write, false);
    if (--g.countdown > 0) return;
    sample_countdown();
    count_fault(F_PREEMPT_MEM);
    schedule(Y_MEM, 0);
}
void libc_write_point() {
    if (!simulating()) return;
    State& g = *G;
    if (!g.cfg.libc_point_every) return;
    if (++g.libc_points % g.cfg.libc_point_every) return;
    count_fault(F_PREEMPT_MEM);
    schedule(Y_MEM, 1);
}
void atomic_event(const void* addr, int size, int kind) {
    if (!simulating()) return;
    State& g = *G;
    g.st.mem_events++;
    if (g.acc_obs && (const char*)addr < g.acc_hi && (const char*)addr + size > g.acc_lo) g.acc_obs(tls_task, addr, size, kind != 0, true);
    if (g.acc_obs2 && (const char*)addr < g.acc2_hi && (const char*)addr + size > g.acc2_lo) g.acc_obs2(tls_task, addr, size, kind != 0, true);
    // an atomic is a synchronisation point: always a scheduling point
    schedule(Y_ATOMIC, 0);
    // read-modify-write operations and fences drain the task's own store buffer before they execute
    if (kind >= 2) sb_flush(g.tasks[g.cur]);
}
int atomic_store(void* addr, int size, uint64_t v, int order) {
    if (!simulating()) return 0;
    State& g = *G;
    g.st.mem_events++;
    if (g.acc_obs && (const char*)addr < g.acc_hi && (const char*)addr + size > g.acc_lo) g.acc_obs(tls_task, addr, size, true, true);
    if (g.acc_obs2 && (const char*)addr < g.acc2_hi && (const char*)addr + size > g.acc2_lo) g.acc_obs2(tls_task, addr, size, true, true);
    schedule(Y_ATOMIC, 0);
    Task* me = g.tasks[g.cur];
    if (order == __ATOMIC_SEQ_CST) { sb_flush(me); tls_atomic_pending = addr; tls_atomic_pending_age = 0; return 0; }   // the caller performs the store now
    me->sb.push_back({addr, size, v});
    g.st.sb_buffered++; count_fault(F_STORE_DELAYED);
    return 1;
}
int atomic_load(const void* addr, int size, int order, uint64_t* out) {
    (void)order;
    if (!simulating()) return 0;
    State& g = *G;
    g.st.mem_events++;
    if (g.acc_obs && (const char*)addr < g.acc_hi && (const char*)addr + size > g.acc_lo) g.acc_obs(tls_task, addr, size, false, true);
    if (g.acc_obs2 && (const char*)addr < g.acc2_hi && (const char*)addr + size > g.acc2_lo) g.acc_obs2(tls_task, addr, size, false, true);
    schedule(Y_ATOMIC, 0);
    Task* me = g.tasks[g.cur];
    tls_atomic_pending = addr; tls_atomic_pending_age = 0;
    if (me->sb.empty()) return 0;
    // own delayed stores are visible to the task itself: forward from the single containing entry, otherwise the
    // overlapping stores have to reach memory first
    const char* lo = (const char*)addr; const char* hi = lo + size;
    int overlapping = 0; const Task::SbEntry* last = nullptr;
    for (auto& e : me->sb) if ((const char*)e.addr < hi && (const char*)e.addr + e.size > lo) { overlapping++; last = &e; }
    if (!overlapping) return 0;
    if (overlapping == 1 && (const char*)last->addr <= lo && (const char*)last->addr + last->size >= hi) {
        uint64_t v = last->v >> (8 * (lo - (const char*)last->addr));     // little-endian host
        if (size < 8) v &= (1ull << (8 * size)) - 1;
        *out = v; g.st.sb_forwarded++; tls_atomic_pending = nullptr;
        return 1;
    }
    sb_flush(me);
    return 0;
}

// ---------------------------------------------------------------- tasks
static void* trampoline(void* p) {
    Task* t = (Task*)p;
    park(t);
    tls_task = t->id;
    tls_in_sut = 1;
    t->ret = t->fn(t->arg);
    State& g = *G;
    t->st = T_FINISHED;
    if (g.sync_obs) g.sync_obs(t->id, (uint64_t)t->id, 1);
    for (Task* o : g.tasks) if (o->st == T_BLOCKED_JOIN && (o->join_target == t->id)) o->st = T_RUNNABLE;
    // join_all waiters (target -2) wake when everybody else is finished
    {
        bool others_done = true;
        for (Task* o : g.tasks) if (o->id != 0 && o->st != T_FINISHED) others_done = false;
        if (others_done) for (Task* o : g.tasks) if (o->st == T_BLOCKED_JOIN && o->join_target == -2) o->st = T_RUNNABLE;
    }
    log_event("exit", t->id);
    tls_in_sut = 0;
    schedule(Y_EXIT, t->id);
    return nullptr;
}

void begin(const Config& cfg, FatalHandler on_fatal) {
    if (!G) G = new State();
    State& g = *G;
    std::vector<uint32_t> keep_replay; keep_replay.swap(g.replay);
    FILE* fp = g.trace_fp;
    for (Task* t : g.tasks) { sem_destroy(&t->sem); delete t; }
    g.tasks.clear(); g.mutexes.clear(); g.conds.clear(); g.ids.clear(); g.trace.clear();
    g.cfg = cfg; g.st = Stats(); g.on_fatal = on_fatal; g.trace_fp = fp;
    g.replay.swap(keep_replay); g.replay_pos = 0;
    g.seq = 0; g.now = 0; g.acc_obs = nullptr; g.acc_obs2 = nullptr; g.sync_obs = nullptr; g.atomic_depth = 0; g.libc_points = 0;
    uint64_t s = cfg.seed ^ 0x5c4ed5c4ed5c4ed5ull;
    g.sched.seed(splitmix64(s));
    Task* t0 = new Task(); t0->id = 0; sem_init(&t0->sem, 0, 0); t0->prio = 1000000; g.tasks.push_back(t0);
    g.cur = 0; tls_task = 0;
    g.pct_points.clear(); g.pct_low = 1000;
    if (cfg.policy == 1) {
        Rng r; r.seed(cfg.seed ^ 0x9c7);
        for (int i = 0; i < cfg.pct_depth; i++) g.pct_points.push_back(1 + r.below(cfg.pct_horizon));
    }
    g.active = true;
    sample_countdown();
    if (g.trace_fp) fprintf(g.trace_fp, "# begin seed=%llu policy=%d\n", (unsigned long long)cfg.seed, cfg.policy);
}

void end() {
    State& g = *G;
    g.st.sim_ns = g.now;
    g.st.tasks = (int)g.tasks.size();
    for (Task* t : g.tasks) sb_flush(t);
    g.active = false;
    for (Task* t : g.tasks) if (t->has_thread) { __real_pthread_join(t->th, nullptr); t->has_thread = false; }
    tls_task = -1;
}

int spawn(TaskFn fn, void* arg, size_t stack_bytes) {
    State& g = *G;
    if ((int)g.tasks.size() >= MAX_TASKS) { fprintf(stderr, "simcore: too many tasks\n"); _exit(98); }
    Task* t = new Task();
    t->id = (int)g.tasks.size(); t->fn = fn; t->arg = arg; sem_init(&t->sem, 0, 0);
    // PCT priorities: deterministic from the seed and id
    { uint64_t x = g.cfg.seed * 1315423911ull + (uint64_t)t->id * 2654435761ull; t->prio = 2000 + (uint32_t)(splitmix64(x) % 100000); }
    g.tasks.push_back(t);
    g.st.tasks = (int)g.tasks.size();
    int saved = tls_in_sut; tls_in_sut = 0;
    pthread_attr_t at; pthread_attr_init(&at); pthread_attr_setstacksize(&at, stack_bytes ? stack_bytes : g.cfg.task_stack_bytes);
    int rc = __real_pthread_create(&t->th, &at, trampoline, t);
    pthread_attr_destroy(&at);
    tls_in_sut = saved;
    if (rc != 0) { fprintf(stderr, "simcore: real pthread_create failed: %d\n", rc); _exit(98); }
    t->has_thread = true;
    if (g.sync_obs) g.sync_obs(tls_task, (uint64_t)t->id, 2);
    log_event("spawn", t->id);
    return t->id;
}

void join(int task) {
    State& g = *G;
    Task* me = g.tasks[g.cur];
    Task* t = g.tasks[task];
    while (t->st != T_FINISHED) { me->st = T_BLOCKED_JOIN; me->join_target = task; schedule(Y_JOIN, task); }
    if (g.sync_obs) g.sync_obs(me->id, (uint64_t)task, 3);
}
void join_all() {
    State& g = *G;
    Task* me = g.tasks[g.cur];
    for (;;) {
        bool done = true; for (Task* o : g.tasks) if (o->id != me->id && o->st != T_FINISHED) done = false;
        if (done) break;
        me->st = T_BLOCKED_JOIN; me->join_target = -2; schedule(Y_JOIN, 0);
    }
    if (g.sync_obs) for (Task* o : g.tasks) if (o->id != me->id) g.sync_obs(me->id, (uint64_t)o->id, 3);
}

// ---------------------------------------------------------------- simulated sync objects
static SimMutex& mtx(const void* m) {
    State& g = *G;
    auto it = g.mutexes.find(m);
    if (it == g.mutexes.end()) { SimMutex sm; sm.id = logical_id(m); it = g.mutexes.emplace(m, sm).first; }
    return it->second;
}
static int sim_lock(const void* m) {
    State& g = *G;
    Task* me = g.tasks[g.cur];
    SimMutex& sm = mtx(m);
    schedule(Y_LOCK, sm.id);           // preemption point before acquisition
    bool contended = false;
    while (mtx(m).owner != -1) {
        if (mtx(m).owner == me->id) { fatal(RS_DEADLOCK, "relock of a mutex already owned by the same task"); }
        contended = true;
        me->st = T_BLOCKED_MUTEX; me->wait_obj = m;
        schedule(Y_LOCK, sm.id);
    }
    if (contended) g.st.lock_contended++;
    mtx(m).owner = me->id;
    if (g.sync_obs) g.sync_obs(me->id, (uint64_t)(uintptr_t)m, 0);
    log_event("lock", mtx(m).id);
    return 0;
}
static int sim_unlock(const void* m) {
    State& g = *G;
    Task* me = g.tasks[g.cur];
    SimMutex& sm = mtx(m);
    if (sm.owner != me->id) {
        // undefined behaviour per POSIX; a default (non error-checking) mutex is released although another thread owns it
        log_event("unlock-not-owner", sm.id); g.st.unlock_not_owner++;
        if (sm.owner == -1) return 0;
    }
    if (g.sync_obs) g.sync_obs(me->id, (uint64_t)(uintptr_t)m, 1);
    sm.owner = -1;
    for (Task* t : g.tasks) if (t->st == T_BLOCKED_MUTEX && t->wait_obj == m) t->st = T_RUNNABLE;
    log_event("unlock", sm.id);
    schedule(Y_UNLOCK, sm.id);         // preemption point after release
    return 0;
}
// re-acquire without the leading preemption point (used after a cond wait)
static void sim_relock(const void* m) {
    State& g = *G;
    Task* me = g.tasks[g.cur];
    while (mtx(m).owner != -1) { me->st = T_BLOCKED_MUTEX; me->wait_obj = m; schedule(Y_LOCK, mtx(m).id); }
    mtx(m).owner = me->id;
    if (g.sync_obs) g.sync_obs(me->id, (uint64_t)(uintptr_t)m, 0);
    log_event("relock", mtx(m).id);
}
static int sim_cond_wait(const void* c, const void* m, int64_t deadline_ns /* sim ns, -1 none */) {
    State& g = *G;
    Task* me = g.tasks[g.cur];
    SimMutex& sm = mtx(m);
    uint32_t cid = logical_id(c);
    if (sm.owner != me->id) { log_event("condwait-not-owner", cid); return EPERM; }
    // a thread can be preempted between evaluating its predicate and blocking, still holding the mutex
    schedule(Y_CONDWAIT, cid);
    g.st.cond_waits++;
    log_event("condwait", cid, deadline_ns >= 0 ? (uint64_t)deadline_ns : ~0ull);
    // atomically release the mutex and block
    if (g.sync_obs) g.sync_obs(me->id, (uint64_t)(uintptr_t)m, 1);
    sm.owner = -1;
    for (Task* t : g.tasks) if (t->st == T_BLOCKED_MUTEX && t->wait_obj == m) t->st = T_RUNNABLE;
    me->timed_out = false;
    me->deadline = deadline_ns;
    if (deadline_ns >= 0 && deadline_ns <= g.now) {
        // already expired: POSIX still releases and re-acquires the mutex
        me->timed_out = true; g.st.timeouts_fired++; count_fault(F_COND_TIMEOUT);
        me->st = T_RUNNABLE;
    } else {
        me->st = T_BLOCKED_COND; me->wait_obj = c; me->wait_mutex = m;
    }
    schedule(Y_CONDWAIT, cid);
    bool to = me->timed_out;
    me->deadline = -1; me->timed_out = false;
    sim_relock(m);
    log_event("condwake", cid, to);
    return to ? ETIMEDOUT : 0;
}
static int sim_cond_signal(const void* c, bool all) {
    State& g = *G;
    uint32_t cid = logical_id(c);
    Task* w[MAX_TASKS]; int nw = 0;
    for (Task* t : g.tasks) if (t->st == T_BLOCKED_COND && t->wait_obj == c) w[nw++] = t;
    if (nw == 0) { g.st.signals_no_waiter++; log_event(all ? "bcast0" : "signal0", cid); }
    else if (all) { for (int i = 0; i < nw; i++) { w[i]->st = T_RUNNABLE; w[i]->timed_out = false; } log_event("bcast", cid, nw); }
    else {
        uint32_t v = nw > 1 ? decide_p((uint32_t)nw, 0.5) : 0;
        if (nw > 1) count_fault(F_SIGNAL_CHOICE);
        w[v]->st = T_RUNNABLE; w[v]->timed_out = false;
        log_event("signal", cid, w[v]->id);
    }
    schedule(all ? Y_BCAST : Y_SIGNAL, cid);
    return 0;
}

} // namespace sim

// ---------------------------------------------------------------- link-time wrappers
using namespace sim;
extern "C" {

struct SimThreadStart { void* (*fn)(void*); void* arg; };

int __wrap_pthread_create(pthread_t* th, const pthread_attr_t* attr, void* (*fn)(void*), void* arg) {
    if (!simulating()) return __real_pthread_create(th, attr, fn, arg);
    State& g = *G;
    if (g.cfg.thread_create_faults) {
        if (decide_p(2, g.cfg.thread_create_fail_prob)) { count_fault(F_THREAD_CREATE_FAIL); log_event("thread_create_fail"); return EAGAIN; }
    }
    size_t want = 0;
    if (attr) {   // the stack the code asks for is part of its behaviour (a smaller stack than the default makes deep recursion a crash)
        size_t ss = 0; pthread_attr_t dflt; size_t ds = 0;
        pthread_attr_init(&dflt); pthread_attr_getstacksize(&dflt, &ds); pthread_attr_destroy(&dflt);
        if (pthread_attr_getstacksize(attr, &ss) == 0 && ss != 0 && ss != ds) {
            want = ss * g.cfg.attr_stack_scale;
            if (want < (256u << 10)) want = 256u << 10;
            if (want > ((size_t)1 << 30)) want = (size_t)1 << 30;
        }
    }
    int id = spawn(fn, arg, want);
    *th = (pthread_t)(uintptr_t)(0x51D00000u + (unsigned)id);
    schedule(Y_SPAWN, (uint64_t)id);
    return 0;
}
int __wrap_pthread_join(pthread_t th, void** ret) {
    if (!simulating()) return __real_pthread_join(th, ret);
    uintptr_t v = (uintptr_t)th;
    if ((v & 0xFFF00000u) != 0x51D00000u) return ESRCH;
    int id = (int)(v & 0xFFFFF);
    if (id <= 0 || id >= (int)G->tasks.size()) return ESRCH;
    sim::join(id);
    if (ret) *ret = G->tasks[id]->ret;
    log_event("join", (uint64_t)id);
    return 0;
}
int __wrap_pthread_detach(pthread_t th) {
    if (!simulating()) return __real_pthread_detach(th);
    return 0;
}
int __wrap_pthread_mutex_init(pthread_mutex_t* m, const pthread_mutexattr_t* a) {
    if (!simulating()) return __real_pthread_mutex_init(m, a);
    memset(m, 0, sizeof *m);
    G->mutexes.erase(m);
    mtx(m);
    return 0;
}
int __wrap_pthread_mutex_destroy(pthread_mutex_t* m) {
    if (!simulating()) return __real_pthread_mutex_destroy(m);
    auto it = G->mutexes.find(m);
    if (it != G->mutexes.end()) { if (it->second.owner != -1) log_event("destroy-locked-mutex", it->second.id); G->mutexes.erase(it); }
    return 0;
}
int __wrap_pthread_mutex_lock(pthread_mutex_t* m) {
    if (!simulating()) return __real_pthread_mutex_lock(m);
    return sim_lock(m);
}
int __wrap_pthread_mutex_trylock(pthread_mutex_t* m) {
    if (!simulating()) return __real_pthread_mutex_trylock(m);
    schedule(Y_LOCK, mtx(m).id);
    if (mtx(m).owner != -1) return EBUSY;
    mtx(m).owner = G->cur;
    if (G->sync_obs) G->sync_obs(G->cur, (uint64_t)(uintptr_t)m, 0);
    return 0;
}
int __wrap_pthread_mutex_unlock(pthread_mutex_t* m) {
    if (!simulating()) return __real_pthread_mutex_unlock(m);
    return sim_unlock(m);
}
int __wrap_pthread_cond_init(pthread_cond_t* c, const pthread_condattr_t* a) {
    if (!simulating()) return __real_pthread_cond_init(c, a);
    memset(c, 0, sizeof *c);
    return 0;
}
int __wrap_pthread_cond_destroy(pthread_cond_t* c) {
    if (!simulating()) return __real_pthread_cond_destroy(c);
    for (Task* t : G->tasks) if (t->st == T_BLOCKED_COND && t->wait_obj == c) log_event("destroy-cond-with-waiter", logical_id(c));
    return 0;
}
int __wrap_pthread_cond_wait(pthread_cond_t* c, pthread_mutex_t* m) {
    if (!simulating()) return __real_pthread_cond_wait(c, m);
    return sim_cond_wait(c, m, -1);
}
int __wrap_pthread_cond_timedwait(pthread_cond_t* c, pthread_mutex_t* m, const struct timespec* abs) {
    if (!simulating()) return __real_pthread_cond_timedwait(c, m, abs);
    if (abs->tv_nsec < 0 || abs->tv_nsec >= 1000000000L) { log_event("timedwait-einval"); return EINVAL; }
    // deadline is on CLOCK_REALTIME: convert to sim ns
    __int128 d = (__int128)abs->tv_sec * 1000000000 + abs->tv_nsec - G->cfg.epoch_real_ns;
    // a deadline more than 10^15 ns (11 days) of simulated time ahead never expires in a run: it is an untimed wait for the simulator
    // (and keeps the simulated clock inside what 64-bit nanoseconds can hold)
    int64_t dl = d < 0 ? 0 : (d > (__int128)G->now + 1000000000000000ll ? -1 : (int64_t)d);
    return sim_cond_wait(c, m, dl);
}
int __wrap_pthread_cond_signal(pthread_cond_t* c) {
    if (!simulating()) return __real_pthread_cond_signal(c);
    return sim_cond_signal(c, false);
}
int __wrap_pthread_cond_broadcast(pthread_cond_t* c) {
    if (!simulating()) return __real_pthread_cond_broadcast(c);
    return sim_cond_signal(c, true);
}

// weak hook so an engine can override clock behaviour (C15 uses its own clock faults)
__attribute__((weak)) int sim_clock_hook(clockid_t id, struct timespec* ts, int* result) { (void)id; (void)ts; (void)result; return 0; }

int __wrap_clock_gettime(clockid_t id, struct timespec* ts) {
    if (!simulating()) return __real_clock_gettime(id, ts);
    int res = 0;
    if (sim_clock_hook(id, ts, &res)) return res;
    // Linux clock ids: 0 REALTIME, 1 MONOTONIC, 2/3 CPU time, 4 MONOTONIC_RAW, 5 REALTIME_COARSE, 6 MONOTONIC_COARSE, 7 BOOTTIME
    if ((int)id < 0 || (int)id > 7) { errno = EINVAL; return -1; }
    int64_t base = (id == CLOCK_REALTIME || id == 5) ? G->cfg.epoch_real_ns : G->cfg.epoch_mono_ns;
    int64_t v = base + G->now;
    if (id == 5 || id == 6) v = v / 4000000 * 4000000;      // coarse clocks only advance on (4 ms) ticks, i.e. lag the precise clock
    ts->tv_sec = (time_t)(v / 1000000000); ts->tv_nsec = (long)(v % 1000000000);
    log_event("clock_gettime", (uint64_t)id, (uint64_t)v);
    G->now += 1; // time moves with every observation
    return 0;
}
int __wrap_clock_getres(clockid_t id, struct timespec* ts) {
    if (!simulating()) return __real_clock_getres(id, ts);
    if ((int)id < 0 || (int)id > 7) { errno = EINVAL; return -1; }
    if (ts) { ts->tv_sec = 0; ts->tv_nsec = (id == 5 || id == 6) ? 4000000 : 1; }
    return 0;
}
time_t __wrap_time(time_t* t) {
    if (!simulating()) return __real_time(t);
    time_t v = (time_t)((G->cfg.epoch_real_ns + G->now) / 1000000000);
    if (t) *t = v;
    return v;
}

// sanitizer-coverage callbacks (compiled into SUT objects with trace-loads/stores)
void __sanitizer_cov_trace_pc_guard(uint32_t*) {}
void __sanitizer_cov_trace_pc_guard_init(uint32_t*, uint32_t*) {}
void __sanitizer_cov_load1(uint8_t* a) { mem_event(a, 1, false); }
void __sanitizer_cov_load2(uint16_t* a) { mem_event(a, 2, false); }
void __sanitizer_cov_load4(uint32_t* a) { mem_event(a, 4, false); }
void __sanitizer_cov_load8(uint64_t* a) { mem_event(a, 8, false); }
void __sanitizer_cov_load16(__uint128_t* a) { mem_event(a, 16, false); }
void __sanitizer_cov_store1(uint8_t* a) { mem_event(a, 1, true); }
void __sanitizer_cov_store2(uint16_t* a) { mem_event(a, 2, true); }
void __sanitizer_cov_store4(uint32_t* a) { mem_event(a, 4, true); }
void __sanitizer_cov_store8(uint64_t* a) { mem_event(a, 8, true); }
void __sanitizer_cov_store16(__uint128_t* a) { mem_event(a, 16, true); }
void sim_atomic_event(const void* a, int size, int kind) { atomic_event(a, size, kind); }
void sim_libc_write_point(void) { libc_write_point(); }
int sim_atomic_store(void* a, int size, unsigned long long v, int order) { return atomic_store(a, size, v, order); }
int sim_atomic_load(const void* a, int size, int order, unsigned long long* out) { uint64_t o = 0; int r = atomic_load(a, size, order, &o); *out = o; return r; }

} // extern "C"
