// siminst — C06: instantiation state, once, per instance.  Real code: one generated 'inst' module (seeded family:
// defined/imported memory, table, globals; overlapping/zero-length/last-byte/all-zero active segments; passive segment;
// element segments; start function with a host call) translated by the current /repo translator + w2c2_base.h.
// 1-4 client tasks, each owning an instance (own or shared resolver objects), interleaved by the seeded scheduler at
// operation boundaries; a per-instance / per-object reference model is compared after every operation.
#include "../../simcore/simcore.h"
#include "glue_inst.h"
#include "inst_desc.inc"
#include <string>
#include <vector>
#include <map>
#include <set>
#include <sstream>
#include <string.h>
#include <stdlib.h>
#include <stdio.h>
#include <unistd.h>
#include <signal.h>

using namespace sim;
typedef uint32_t U32; typedef uint64_t U64;

struct Op { std::string name; U64 a[3] = {0, 0, 0}; int nargs = 0; };
struct Plan { uint64_t seed = 0; int policy = 0; double switch_prob = 0.3; std::vector<int> env_of; std::vector<std::vector<Op>> tasks; std::vector<uint32_t> sched; };

struct MemModel { std::vector<uint8_t> b; U32 pages = 0; };
struct TabModel { int slot[8]; };
struct InstModel { bool up = false; int env = 0; void* inst = nullptr; void* memobj = nullptr; void* tabobj = nullptr; U32 g0 = 0; U64 g1 = 0; U32 started = 0; };

static std::map<std::string, const InstExport*> EX;
static std::vector<InstEnv*> g_envs;
static std::map<void*, MemModel> g_mem;
static std::map<void*, TabModel> g_tab;
static std::vector<InstModel> g_inst;
static const Plan* g_plan;
static std::vector<std::string> g_sigs; static std::string g_detail;
static uint64_t g_ops = 0, g_probes = 0, g_child_instances = 0;
static bool g_write_replays = true; static const char* g_replay_dir = "/verif/replays";

static void V(const std::string& sig, const std::string& d) { for (auto& s : g_sigs) if (s == sig) return; if (g_sigs.empty()) g_detail = d; g_sigs.push_back(sig); }
static std::string cfg() { return std::string(D_MEM_IMPORTED ? "imported-memory" : (D_SHARED ? "shared-memory" : "defined-memory")) + (D_TAB_IMPORTED ? "+imported-table" : ""); }

static U64 call(const char* name, void* inst, U64 a0 = 0, U64 a1 = 0, U64 a2 = 0) {
    const InstExport* e = EX[name]; if (!e) { fprintf(stderr, "siminst: no export %s\n", name); _exit(96); }
    std::string s = e->sig; void (*fn)(void) = e->fn;
    sim::sut_enter();
    U64 r = 0;
    if (s == "_i") r = ((U32(*)(void*))fn)(inst);
    else if (s == "_j") r = ((U64(*)(void*))fn)(inst);
    else if (s == "i_v") ((void (*)(void*, U32))fn)(inst, (U32)a0);
    else if (s == "j_v") ((void (*)(void*, U64))fn)(inst, a0);
    else if (s == "i_i") r = ((U32(*)(void*, U32))fn)(inst, (U32)a0);
    else if (s == "ii_v") ((void (*)(void*, U32, U32))fn)(inst, (U32)a0, (U32)a1);
    else if (s == "iii_v") ((void (*)(void*, U32, U32, U32))fn)(inst, (U32)a0, (U32)a1, (U32)a2);
    else { fprintf(stderr, "siminst: signature %s\n", s.c_str()); _exit(96); }
    sim::sut_leave();
    return r;
}

static void probe_all(const std::string& after) {
    g_probes++;
    for (size_t c = 0; c < g_inst.size(); c++) {
        InstModel& m = g_inst[c]; if (!m.up) continue;
        std::string who = "instance " + std::to_string(c) + " " + after;
        U32 v = (U32)call("get_g0", m.inst); if (v != m.g0) V("C06/isolation/global-g0", who + ": g0 " + std::to_string(v) + " expected " + std::to_string(m.g0));
        U64 w = call("get_g1", m.inst); if (w != m.g1) V("C06/isolation/global-g1", who + ": g1 " + std::to_string(w) + " expected " + std::to_string(m.g1));
        U32 g2 = (U32)call("get_g2", m.inst); if (g2 != D_G2_BITS) V("C06/globals/immutable-f32-bits", who + ": bits " + std::to_string(g2) + " expected " + std::to_string(D_G2_BITS));
        U32 st = (U32)call("started", m.inst); if (st != m.started) V("C06/start/run-count", who + ": start function ran " + std::to_string(st) + " times, expected " + std::to_string(m.started));
        TabModel& t = g_tab[m.tabobj];
        for (int i = 0; i < 8; i++) if (t.slot[i] >= 0) { U32 r = (U32)call("calli", m.inst, (U64)i); if ((int)r != t.slot[i]) V("C06/table/slot:" + cfg(), who + ": table[" + std::to_string(i) + "]() returned " + std::to_string(r) + " expected " + std::to_string(t.slot[i])); }
        MemModel& mm = g_mem[m.memobj];
        U32 pages = iglue_mem_pages(m.inst);
        if (pages != mm.pages) { V("C06/memory/pages:" + cfg(), who + ": " + std::to_string(pages) + " pages, expected " + std::to_string(mm.pages)); continue; }
        const uint8_t* d = iglue_mem_data(m.inst);
        if (memcmp(d, mm.b.data(), mm.b.size()) != 0) { size_t k = 0; while (d[k] == mm.b[k]) k++; V("C06/memory/bytes:" + cfg(), who + ": memory byte " + std::to_string(k) + " is " + std::to_string(d[k]) + " expected " + std::to_string(mm.b[k])); }
    }
}

static uint64_t g_reinst = 0, g_dirty = 0;
// mode 0: fresh zeroed struct; 1, 2: struct pre-filled with 0xA5 / 0xFF bytes; 3: FreeInstance and Instantiate again into the same
// struct, against the resolver objects of environment envsel
static void do_instantiate(int c, int parent, int mode = 0, int envsel = -1) {
    if (mode == 3) {
        InstModel& old = g_inst[(size_t)c];
        if (!old.up) return;
        if (!D_MEM_IMPORTED) g_mem.erase(old.memobj);
        if (!D_TAB_IMPORTED) g_tab.erase(old.tabobj);
        old.env = envsel % (int)g_envs.size();
    } else g_inst[(size_t)c].env = g_plan->env_of[(size_t)c];
    InstEnv* env = g_envs[(size_t)g_inst[(size_t)c].env];
    // a child instance (the way thread-spawn obtains instances) of a module without shared memory is a complete new
    // instance on the parent's resolver objects; with a shared memory the child deliberately shares it, which is not modelled here
    bool child = parent >= 0 && parent != c && g_inst[(size_t)parent].up && !D_SHARED;
    if (child) { g_inst[(size_t)c].env = g_inst[(size_t)parent].env; env = g_envs[(size_t)g_inst[(size_t)c].env]; }
    int hooks_before = g_hook_calls;
    sim::sut_enter();
    void* inst;
    if (mode == 3) { inst = g_inst[(size_t)c].inst; iglue_reinstantiate(inst, env); g_reinst++; }
    else if (child) inst = iglue_new_child(g_inst[(size_t)parent].inst, env);
    else { inst = iglue_instantiate(env, mode); if (mode) g_dirty++; }
    sim::sut_leave();
    if (child) g_child_instances++;
    InstModel& m = g_inst[(size_t)c];
    m.inst = inst; m.memobj = iglue_mem_object(inst); m.tabobj = iglue_tab_object(inst);
    if (!g_mem.count(m.memobj)) { MemModel mm; mm.pages = D_MEM_MIN; mm.b.assign((size_t)D_MEM_MIN * 65536, 0); g_mem[m.memobj] = mm; }
    if (!g_tab.count(m.tabobj)) { TabModel t; for (int i = 0; i < 8; i++) t.slot[i] = -1; g_tab[m.tabobj] = t; }
    {
        // the function export table: exactly the module's function exports, each name once (aliases and re-exported imports included)
        std::multiset<std::string> want, got; { std::istringstream is(D_FUNC_EXPORT_NAMES); std::string w; while (is >> w) want.insert(w); }
        int n = iglue_func_export_count(inst);
        for (int k = 0; k < n; k++) { const char* nm = iglue_func_export_name(inst, k); got.insert(nm ? nm : "(null)"); }
        if (got != want) { std::string miss, extra; for (auto& w : want) if (!got.count(w)) miss += " " + w; for (auto& g2 : got) if (got.count(g2) > want.count(g2)) extra += " " + g2; V("C06/exports/function-export-table", "missing:" + miss + " unexpected/duplicate:" + extra); }
        else for (int k = 0; k < n; k++) { std::string nm = iglue_func_export_name(inst, k); if ((nm == "get_g2" || nm == "get_g2_alias") && iglue_func_export_call_i(inst, k) != D_G2_BITS) V("C06/exports/function-export-table-entry", nm + " does not lead to the exported function"); }
    }
    if (!D_MEM_IMPORTED && iglue_export_memory(inst) != m.memobj) V("C06/exports/memory-accessor-returns-another-object", "inst_memory(instance) is not the instance's memory");
    if (D_MEM_IMPORTED && m.memobj != env->mem) V("C06/imports/memory-not-bound-to-resolver-object", "instance uses another memory object than the resolver returned");
    if (D_TAB_IMPORTED && m.tabobj != env->tab) V("C06/imports/table-not-bound-to-resolver-object", "");
    for (size_t o = 0; o < g_inst.size(); o++) if (o != (size_t)c && g_inst[o].up) {
        if (!D_MEM_IMPORTED && g_inst[o].memobj == m.memobj) V("C06/isolation/defined-memory-shared-between-instances", "");
        if (!D_TAB_IMPORTED && g_inst[o].tabobj == m.tabobj) V("C06/isolation/defined-table-shared-between-instances", "");
    }
    MemModel& mm = g_mem[m.memobj];
    for (int s = 0; s < D_NSEGS; s++) if (D_SEGS[s].addr + D_SEGS[s].len <= mm.b.size()) memcpy(&mm.b[D_SEGS[s].addr], D_SEGS[s].bytes, D_SEGS[s].len);
    TabModel& t = g_tab[m.tabobj];
    for (int e = 0; D_ELEMS[e].n >= 0; e++) for (int q = 0; q < D_ELEMS[e].n; q++) t.slot[D_ELEMS[e].off + q] = D_ELEMS[e].vals[q];
    m.g0 = D_G0; m.g1 = D_USE_GINIT ? env->ginit : D_G1_CONST; m.started = D_HAS_START ? 1 : 0;
    if (D_HAS_START) {
        U32 expect_arg = D_HOOK_ADDR < mm.b.size() ? mm.b[D_HOOK_ADDR] : 0;
        if (g_hook_calls - hooks_before != 1) V("C06/start/host-call-count", "start function called the host import " + std::to_string(g_hook_calls - hooks_before) + " times during instantiation");
        else { if (g_hook_last_arg != expect_arg) V("C06/start/ran-before-segments:" + cfg(), "the start function saw memory[" + std::to_string(D_HOOK_ADDR) + "] = " + std::to_string(g_hook_last_arg) + ", data segments put " + std::to_string(expect_arg) + " there"); if (g_hook_last_inst != inst) V("C06/start/host-import-did-not-receive-instance", ""); }
        if (600 < mm.b.size()) mm.b[600] = 0xAB;
    } else if (g_hook_calls != hooks_before) V("C06/start/host-call-without-start", "");
    if (g_unknown_lookups) { V("C06/imports/resolver-asked-for-a-name-the-module-does-not-import", std::string("imports are ") + D_IMPORT_NAMES); g_unknown_lookups = 0; }
    m.up = true;
    log_event("instantiate", (uint64_t)c);
}

static void exec_op_body(int c, const Op& op);
static void exec_op(int c, const Op& op) {
    sim::yield(Y_OP, (uint64_t)c);
    // operations are atomic in the model: no task switch between the real effect and the model update
    sim::atomic_begin();
    exec_op_body(c, op);
    sim::atomic_end();
}
static void exec_op_body(int c, const Op& op) {
    g_ops++;
    InstModel& m = g_inst[(size_t)c];
    if (op.name == "reinstantiate") { if (m.up) { do_instantiate(c, -1, 3, (int)op.a[0]); probe_all("after freeing instance " + std::to_string(c) + " and instantiating again into the same struct with the resolver objects of environment " + std::to_string(m.env)); } return; }
    if (op.name == "instantiate") { do_instantiate(c, -1, (int)(op.a[0] % 3)); probe_all("after instantiating instance " + std::to_string(c)); return; }
    if (op.name == "newchild") { do_instantiate(c, (int)op.a[0]); probe_all("after creating instance " + std::to_string(c) + " as a child of instance " + std::to_string(op.a[0])); return; }
    if (!m.up) return;
    MemModel& mm = g_mem[m.memobj];
    std::string after = "after " + op.name + " on instance " + std::to_string(c);
    if (op.name == "set_g0") { call("set_g0", m.inst, op.a[0]); m.g0 = (U32)op.a[0]; }
    else if (op.name == "set_g1") { call("set_g1", m.inst, op.a[0]); m.g1 = op.a[0]; }
    else if (op.name == "store8") { U32 a = (U32)(op.a[0] % mm.b.size()); call("store8", m.inst, a, op.a[1]); mm.b[a] = (uint8_t)op.a[1]; }
    else if (op.name == "load8") { U32 a = (U32)(op.a[0] % mm.b.size()); U32 r = (U32)call("load8", m.inst, a); if (r != mm.b[a]) V("C06/memory/load:" + cfg(), after + ": load8(" + std::to_string(a) + ") = " + std::to_string(r) + " expected " + std::to_string(mm.b[a])); }
    else if (op.name == "size") { U32 r = (U32)call("size", m.inst); if (r != mm.pages) V("C06/memory/size:" + cfg(), after + ": " + std::to_string(r) + " expected " + std::to_string(mm.pages)); }
    else if (op.name == "grow") { U32 r = (U32)call("grow", m.inst, 1); if (mm.pages + 1 <= D_MEM_MAX) { if (r != mm.pages) V("C06/memory/grow:" + cfg(), after + ": returned " + std::to_string(r)); else { mm.pages++; mm.b.resize((size_t)mm.pages * 65536, 0); } } else if (r != 0xFFFFFFFFu) V("C06/memory/grow-beyond-max:" + cfg(), after + ": returned " + std::to_string(r)); }
    else if (op.name == "minit") { U32 n = (U32)(op.a[2] % (D_PASSIVE_LEN + 1)), s = (U32)(op.a[1] % (D_PASSIVE_LEN - n + 1)), d = (U32)(op.a[0] % (mm.b.size() - n)); call("minit", m.inst, d, s, n); if (n) memcpy(&mm.b[d], D_PASSIVE + s, n); }
    else if (op.name == "calli") { TabModel& t = g_tab[m.tabobj]; int i = (int)(op.a[0] % 8); if (t.slot[i] >= 0) { U32 r = (U32)call("calli", m.inst, (U64)i); if ((int)r != t.slot[i]) V("C06/table/call_indirect:" + cfg(), after + ": " + std::to_string(r) + " expected " + std::to_string(t.slot[i])); } }
    log_event(op.name.c_str(), (uint64_t)c, op.a[0]);
    probe_all(after);
}

static void* task_main(void* arg) { int c = (int)(intptr_t)arg; for (auto& op : g_plan->tasks[(size_t)c]) { exec_op(c, op); if (!g_sigs.empty()) break; } return nullptr; }

static std::string plan_to_text(const Plan& p, const std::vector<uint32_t>* trace) {
    std::ostringstream o; o << "engine E1-inst\nproperty C06\nseed " << p.seed << "\nconfig policy=" << p.policy << " switch_prob=" << p.switch_prob << "\n";
    for (size_t c = 0; c < p.tasks.size(); c++) { o << "task " << c << " env=" << p.env_of[c] << "\n"; for (auto& op : p.tasks[c]) { o << "op " << c << " " << op.name; for (int k = 0; k < op.nargs; k++) o << " " << op.a[k]; o << "\n"; } }
    const std::vector<uint32_t>& s = trace ? *trace : p.sched; if (!s.empty()) { o << "sched"; for (uint32_t v : s) o << " " << v; o << "\n"; }
    o << "end\n"; return o.str();
}
static bool plan_from_text(const std::string& text, Plan& p) {
    std::istringstream in(text); std::string line;
    while (std::getline(in, line)) {
        if (!line.empty() && line[0] == '#') continue;
        std::istringstream ls(line); std::string w; if (!(ls >> w)) continue;
        if (w == "seed") ls >> p.seed;
        else if (w == "config") { std::string kv; while (ls >> kv) { size_t e = kv.find('='); std::string k = kv.substr(0, e), v = kv.substr(e + 1); if (k == "policy") p.policy = atoi(v.c_str()); else if (k == "switch_prob") p.switch_prob = atof(v.c_str()); } }
        else if (w == "task") { size_t c; std::string kv; ls >> c >> kv; if (p.tasks.size() <= c) { p.tasks.resize(c + 1); p.env_of.resize(c + 1, 0); } p.env_of[c] = atoi(kv.substr(kv.find('=') + 1).c_str()); }
        else if (w == "op") { size_t c; Op op; ls >> c >> op.name; U64 v; while (op.nargs < 3 && ls >> v) op.a[op.nargs++] = v; if (p.tasks.size() <= c) { p.tasks.resize(c + 1); p.env_of.resize(c + 1, 0); } p.tasks[c].push_back(op); }
        else if (w == "sched") { uint32_t v; while (ls >> v) p.sched.push_back(v); }
    }
    return !p.tasks.empty();
}
static Plan make_plan(uint64_t seed) {
    Plan p; p.seed = seed; Rng r; r.seed(seed ^ 0x1257);
    p.policy = r.below(3) == 0 ? 1 : 0; static const double sp[] = {0.1, 0.3, 0.6}; p.switch_prob = sp[r.below(3)];
    int nc = 1 + (int)r.below(4); p.tasks.resize((size_t)nc); p.env_of.resize((size_t)nc);
    for (int c = 0; c < nc; c++) {
        p.env_of[(size_t)c] = r.below(2) ? 0 : c;       // share the resolver objects of client 0, or own ones
        Op i; i.name = "instantiate"; i.nargs = 1; i.a[0] = r.below(3);
        if (c > 0 && r.below(3) == 0) { i.name = "newchild"; i.a[0] = r.below((uint32_t)c); i.nargs = 1; }
        p.tasks[(size_t)c].push_back(i);
        int n = 2 + (int)r.below(14);
        for (int k = 0; k < n; k++) {
            static const char* names[] = {"set_g0", "set_g1", "store8", "store8", "load8", "size", "grow", "minit", "calli", "load8"};
            Op o; o.name = names[r.below(10)]; o.nargs = 3;
            static const U64 addrs[] = {0, 1, 7, 16, 64, 100, 500, 600, 1000, 4000, 30000, 65535, 65536, 131071};
            o.a[0] = o.name == "set_g0" || o.name == "set_g1" ? r.next() : (r.below(3) ? addrs[r.below(14)] : r.next()); o.a[1] = r.next() & 0xFF; o.a[2] = r.next();
            if (o.name == "minit") o.a[1] = r.next();
            if (r.below(12) == 0) { o.name = "reinstantiate"; o.nargs = 1; o.a[0] = r.below((uint32_t)nc); }
            p.tasks[(size_t)c].push_back(o);
        }
    }
    return p;
}

static void emit(uint64_t idx, const Plan& p, const Stats& st, const std::vector<uint32_t>& trace, const char* status) {
    std::string all; for (auto& s : g_sigs) all += (all.empty() ? "" : ";") + s;
    std::string rp = "-";
    if (!g_sigs.empty() && g_write_replays) { char path[512]; snprintf(path, sizeof path, "%s/C06-%016llx.replay", g_replay_dir, (unsigned long long)p.seed); FILE* f = fopen(path, "w"); if (f) { fprintf(f, "# signature %s\n# detail %s\n# variant %s\n%s", all.c_str(), g_detail.c_str(), cfg().c_str(), plan_to_text(p, &trace).c_str()); fclose(f); rp = path; } }
    printf("R idx=%llu seed=%llu status=%s verdict=%s sig=%s log=%016llx il=%016llx steps=%llu switches=%llu memev=%llu simns=%lld ops=%llu tasks=%zu faults=- probes=probe_all:%llu,child_instances:%llu,reinstantiated:%llu,dirty_struct:%llu replay=%s",
           (unsigned long long)idx, (unsigned long long)p.seed, status, g_sigs.empty() ? "pass" : "FAIL", g_sigs.empty() ? "-" : all.c_str(), (unsigned long long)st.log_hash, (unsigned long long)st.il_hash,
           (unsigned long long)st.steps, (unsigned long long)st.switches, (unsigned long long)st.mem_events, (long long)st.sim_ns, (unsigned long long)g_ops, p.tasks.size(), (unsigned long long)g_probes, (unsigned long long)g_child_instances, (unsigned long long)g_reinst, (unsigned long long)g_dirty, rp.c_str());
    if (!g_sigs.empty()) printf(" detail=%s", g_detail.c_str());
    printf("\n");
}
static const Plan* g_cur; static uint64_t g_idx;
static void fatal_handler(int status, const char* detail) { if (status == RS_DEADLOCK) V("C06/liveness/deadlock", detail); emit(g_idx, *g_cur, sim::stats(), sim::decision_trace(), status == RS_DEADLOCK ? "deadlock" : "budget"); fflush(stdout); _exit(status == RS_DEADLOCK ? 91 : 92); }

static void run_plan(uint64_t idx, const Plan& p) {
    g_plan = &p; g_cur = &p; g_idx = idx; g_sigs.clear(); g_detail.clear(); g_ops = g_probes = g_child_instances = g_reinst = g_dirty = 0;
    g_envs.clear(); g_mem.clear(); g_tab.clear(); g_inst.assign(p.tasks.size(), InstModel());
    for (size_t c = 0; c < p.tasks.size(); c++) {
        InstEnv* e = iglue_env_new(D_MEM_MIN, D_MEM_MAX, D_GOFF, D_GINIT ^ (c * 0x9E3779B97F4A7C15ull));
        g_envs.push_back(e);
        MemModel mm; mm.pages = D_MEM_MIN; mm.b.assign((size_t)D_MEM_MIN * 65536, 0); g_mem[e->mem] = mm;
        TabModel t; for (int i = 0; i < 8; i++) t.slot[i] = -1; g_tab[e->tab] = t;
    }
    Config cfg; cfg.seed = p.seed; cfg.policy = p.policy; cfg.switch_prob = p.switch_prob; cfg.mem_mean = 0; cfg.max_steps = 100000;
    sim::set_replay_trace(p.sched);
    sim::begin(cfg, fatal_handler);
    sim::sut_enter();
    for (size_t c = 0; c < p.tasks.size(); c++) sim::spawn(task_main, (void*)(intptr_t)c);
    sim::join_all();
    sim::sut_leave();
    Stats st = sim::stats(); std::vector<uint32_t> trace = sim::decision_trace();
    sim::end();
    emit(idx, p, st, trace, "ok");
    for (auto& m : g_inst) if (m.up) iglue_free_instance(m.inst);
    for (auto* e : g_envs) iglue_env_free(e);
}

extern "C" __attribute__((noreturn)) void trap(int code) { fprintf(stderr, "siminst: trap %d\n", code); _exit(78); }
extern "C" __attribute__((used)) const char* __asan_default_options() { return "exitcode=77:detect_leaks=0:abort_on_error=0:max_malloc_fill_size=1073741824:malloc_fill_byte=190"; }
extern "C" __attribute__((used)) const char* __ubsan_default_options() { return "halt_on_error=1:exitcode=77:print_stacktrace=1"; }
static void on_alarm(int) { const char m[] = "INTERNAL: watchdog in siminst\n"; if (write(2, m, sizeof m - 1)) {} _exit(94); }

int main(int argc, char** argv) {
    std::string replay; uint64_t root = 1, start = 0, count = 1, stride = 1; bool dump = false;
    for (int i = 1; i < argc; i++) {
        std::string a = argv[i]; auto nxt = [&]() { return std::string(i + 1 < argc ? argv[++i] : ""); };
        if (a == "--seed") root = strtoull(nxt().c_str(), 0, 10); else if (a == "--start") start = strtoull(nxt().c_str(), 0, 10); else if (a == "--count") count = strtoull(nxt().c_str(), 0, 10);
        else if (a == "--stride") stride = strtoull(nxt().c_str(), 0, 10); else if (a == "--replay") replay = nxt(); else if (a == "--dump-plan") dump = true;
        else if (a == "--replay-dir") { static std::string d; d = nxt(); g_replay_dir = d.c_str(); } else if (a == "--no-replay-files") g_write_replays = false; else if (a == "--prop") nxt(); else if (a == "--variant") { printf("%s\n", cfg().c_str()); return 0; }
    }
    for (const InstExport* e = inst_exports; e->name; e++) EX[e->name] = e;
    signal(SIGALRM, on_alarm); setvbuf(stdout, nullptr, _IOLBF, 0);
    if (!replay.empty()) {
        FILE* f = fopen(replay.c_str(), "r"); if (!f) return 2; std::string text; char buf[4096]; size_t n; while ((n = fread(buf, 1, sizeof buf, f)) > 0) text.append(buf, n); fclose(f);
        Plan p; if (!plan_from_text(text, p)) return 2; g_write_replays = false; alarm(60); run_plan(0, p); return g_sigs.empty() ? 0 : 1;
    }
    for (uint64_t k = 0; k < count; k++) {
        uint64_t idx = start + k * stride; Plan p = make_plan(mix64(root, mix64(idx, 0xC06)));
        if (dump) { printf("%s", plan_to_text(p, nullptr).c_str()); continue; }
        alarm(30); run_plan(idx, p); alarm(0);
    }
    return 0;
}
