/* Glue for the C06 'inst' module family. Compiled per generated module with -DMEM_IMPORTED=0/1 -DTAB_IMPORTED=0/1 -DHAS_START=0/1. */
#include <stdlib.h>
#include <string.h>
#include "inst.h"
#include "glue_inst.h"
#include "inst_names.h"

#define X(sym, name, sig, kind, info) { name, sig, kind, info, (void (*)(void))inst_##sym },
const InstExport inst_exports[] = {
#include "inst_exports.inc"
    { 0, 0, 0, 0, 0 }
};
#undef X

static InstEnv* g_env;
int g_unknown_lookups;
static void* resolve(const char* module, const char* name) {
    /* exact string match on the names the module imports (inst_names.h); anything else is unknown to this embedder */
    if (!g_env) return NULL;
    if (!strcmp(module, N_MEM_MOD) && !strcmp(name, N_MEM)) return g_env->mem;
    if (!strcmp(module, N_TAB_MOD) && !strcmp(name, N_TAB)) return g_env->tab;
    if (!strcmp(module, N_GOFF_MOD) && !strcmp(name, N_GOFF)) return &g_env->goff;
    if (!strcmp(module, N_GINIT_MOD) && !strcmp(name, N_GINIT)) return &g_env->ginit;
    g_unknown_lookups++;
    return NULL;
}
InstEnv* iglue_env_new(unsigned mem_min, unsigned mem_max, unsigned goff, unsigned long long ginit) {
    InstEnv* e = (InstEnv*)calloc(1, sizeof(InstEnv));
    e->mem = wasmMemoryAllocate(mem_min, mem_max, false);
    e->tab = (wasmTable*)calloc(1, sizeof(wasmTable));
    wasmTableAllocate((wasmTable*)e->tab, 8, 8);
    e->goff = goff; e->ginit = ginit;
    return e;
}
void* iglue_instantiate(InstEnv* env, int dirty) {
    /* the examples instantiate into uninitialised stack structs: the previous contents of the struct must not matter */
    instInstance* i = (instInstance*)(dirty ? malloc(sizeof(instInstance)) : calloc(1, sizeof(instInstance)));
    if (dirty) memset(i, dirty == 1 ? 0xA5 : 0xFF, sizeof(instInstance));
    g_env = env;
    instInstantiate(i, resolve);
    g_env = NULL;
    return i;
}
void* iglue_new_child(void* parent, InstEnv* env) {
    wasmModuleInstance* p = (wasmModuleInstance*)parent;
    void* c;
    g_env = env;
    c = p->newChild(p);
    g_env = NULL;
    return c;
}
unsigned char* iglue_mem_data(void* inst) {
#if MEM_IMPORTED
    return ((instInstance*)inst)->MEM_FIELD->data;
#else
    return ((instInstance*)inst)->m0->data;
#endif
}
unsigned iglue_mem_pages(void* inst) {
#if MEM_IMPORTED
    return ((instInstance*)inst)->MEM_FIELD->pages;
#else
    return ((instInstance*)inst)->m0->pages;
#endif
}
void* iglue_mem_object(void* inst) {
#if MEM_IMPORTED
    return ((instInstance*)inst)->MEM_FIELD;
#else
    return ((instInstance*)inst)->m0;
#endif
}
/* the documented accessor '<module>_<export name>' of an exported memory (defined-memory variants export it as "memory") */
void* iglue_export_memory(void* inst) {
#if MEM_IMPORTED
    (void)inst; return NULL;
#else
    return inst_memory((instInstance*)inst);
#endif
}
/* the export name table every instance carries (used by embedders and by WASI thread-spawn to find functions by name) */
int iglue_func_export_count(void* inst) { wasmFuncExport* e = ((wasmModuleInstance*)inst)->funcExports; int n = 0; if (!e) return -1; while (e[n].func != NULL) n++; return n; }
const char* iglue_func_export_name(void* inst, int k) { return ((wasmModuleInstance*)inst)->funcExports[k].name; }
unsigned iglue_func_export_call_i(void* inst, int k) { return ((U32 (*)(void*))((wasmModuleInstance*)inst)->funcExports[k].func)(inst); }
void* iglue_tab_object(void* inst) {
#if TAB_IMPORTED
    return ((instInstance*)inst)->TAB_FIELD;
#else
    return &((instInstance*)inst)->t0;
#endif
}
/* host import called by the start function */
int g_hook_calls; unsigned g_hook_last_arg; void* g_hook_last_inst;
#if HAS_START
void env__hook(void* inst, U32 v) { g_hook_calls++; g_hook_last_arg = v; g_hook_last_inst = inst; }
#endif
void iglue_free_instance(void* inst) {
    instInstance* i = (instInstance*)inst;
#if !MEM_IMPORTED
    wasmMemory* m = i->m0;
#endif
    instFreeInstance(i);
#if !MEM_IMPORTED
    free(m);
#endif
    free(i);
}
/* FreeInstance, then Instantiate again into the same struct, against (possibly) other resolver objects */
void iglue_reinstantiate(void* inst, InstEnv* env) {
    instInstance* i = (instInstance*)inst;
#if !MEM_IMPORTED
    wasmMemory* m = i->m0;
#endif
    instFreeInstance(i);
#if !MEM_IMPORTED
    free(m);
#endif
    g_env = env;
    instInstantiate(i, resolve);
    g_env = NULL;
}
void iglue_env_free(InstEnv* e) {
    wasmMemoryFree((wasmMemory*)e->mem); free(e->mem);
    wasmTableFree((wasmTable*)e->tab); free(e->tab);
    free(e);
}
