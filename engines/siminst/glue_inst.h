#ifndef GLUE_INST_H
#define GLUE_INST_H
#ifdef __cplusplus
extern "C" {
#endif
typedef struct InstExport { const char* name; const char* sig; const char* kind; const char* info; void (*fn)(void); } InstExport;
extern const InstExport inst_exports[];
typedef struct InstEnv { void* mem; void* tab; unsigned goff; unsigned long long ginit; } InstEnv;
InstEnv* iglue_env_new(unsigned mem_min, unsigned mem_max, unsigned goff, unsigned long long ginit);
void* iglue_instantiate(InstEnv* env, int dirty);
void iglue_reinstantiate(void* inst, InstEnv* env);
void* iglue_new_child(void* parent, InstEnv* env);
unsigned char* iglue_mem_data(void* inst);
unsigned iglue_mem_pages(void* inst);
void* iglue_mem_object(void* inst);
void* iglue_tab_object(void* inst);
int iglue_func_export_count(void* inst);
const char* iglue_func_export_name(void* inst, int k);
unsigned iglue_func_export_call_i(void* inst, int k);
void* iglue_export_memory(void* inst);
void iglue_free_instance(void* inst);
void iglue_env_free(InstEnv* e);
extern int g_unknown_lookups;
extern int g_hook_calls; extern unsigned g_hook_last_arg; extern void* g_hook_last_inst;
#ifdef __cplusplus
}
#endif
#endif
