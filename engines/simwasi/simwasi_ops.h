#include <sys/syscall.h>
// simwasi ops: executes one WASI operation against the real wasi.c (through the generated wasihost module) and the
// corresponding POSIX operation against the mirror tree, and compares.
#pragma once
#include "simwasi_core.h"

struct MFd { bool live = false, preopen = false, stdio = false, dir = false, append = false, stale = false; int mfd = -1; std::string ppath, mpath, regpath; };
struct Ctx {
    const Plan* plan = nullptr; void* inst = nullptr; uint8_t* mem = nullptr; uint32_t memsize = 0;
    std::string root, P, M; std::vector<MFd> tab; Rng data; std::string prop; int pmax = 4096;
    uint32_t gp = 0;                     // guest bump pointer
    std::vector<std::pair<uint32_t, uint32_t>> regions;   // allocated guest regions of the current op
    int64_t last_mono = -1;
    std::map<std::string, const SimDispatch*> disp;
    std::vector<HostCall> calls;
    uint64_t write_counter = 1;
};
static Ctx* X = nullptr;

// ---------------------------------------------------------------- guest memory
static const uint32_t G_BASE = 16384, G_END = 32 * 65536 - 4096;
static void g_reset() { X->gp = G_BASE + X->data.below(64); X->regions.clear(); }
static uint32_t galloc(uint32_t n, uint32_t align = 1) {
    uint32_t p = X->gp + 8 + X->data.below(8);
    if (align > 1) p = (p + align - 1) / align * align;
    if (p + n + 16 > G_END) { p = G_BASE + 8; }
    memset(X->mem + p - 8, 0xA5, n + 16);
    X->gp = p + n + 8;
    X->regions.push_back({p, n});
    return p;
}
// Guest memory accessors of the harness. In the forced big-endian build (SIMWASI_BE) the runtime's accessors byte-reverse every
// 16/32/64-bit access on this little-endian host, so the harness does the same: it then sees exactly the values a guest would.
#ifdef SIMWASI_BE
static uint32_t ld32(uint32_t a) { uint32_t v; memcpy(&v, X->mem + a, 4); return __builtin_bswap32(v); }
static uint64_t ld64(uint32_t a) { uint64_t v; memcpy(&v, X->mem + a, 8); return __builtin_bswap64(v); }
static void st32(uint32_t a, uint32_t v) { v = __builtin_bswap32(v); memcpy(X->mem + a, &v, 4); }
#else
static uint32_t ld32(uint32_t a) { uint32_t v; memcpy(&v, X->mem + a, 4); return v; }
static uint64_t ld64(uint32_t a) { uint64_t v; memcpy(&v, X->mem + a, 8); return v; }
static void st32(uint32_t a, uint32_t v) { memcpy(X->mem + a, &v, 4); }
#endif
static uint32_t gput(const std::string& s, bool nul_after = false) {
    uint32_t p = galloc((uint32_t)s.size() + 4);
    memcpy(X->mem + p, s.data(), s.size());
    memset(X->mem + p + s.size(), nul_after ? 0 : 'Z', 4);      // guest paths are not NUL-terminated
    return p;
}
static void V(const std::string& oracle, const std::string& site, const std::string& detail);
// a 32-bit result (byte count, descriptor number) must not be stored wider than 4 bytes
static void check_u32_result_area(uint32_t rp, const std::string& call) {
    for (int k = 4; k < 8; k++) if (X->mem[rp + k] != 0xA5) { V("result-area", call + ":stored-wider-than-32-bits", call + " wrote beyond its 4-byte result at guest address " + std::to_string(rp)); return; }
}
static void check_canaries() {
    for (auto& r : X->regions) {
        for (int k = 1; k <= 8; k++) if (X->mem[r.first - k] != 0xA5) { S->extra_guest_writes++; break; }
    }
}

// ---------------------------------------------------------------- calling the SUT
static uint64_t wcall(const Op& op, const std::string& name, std::initializer_list<uint64_t> args, const std::string* abi_override = nullptr) {
    std::string full = (abi_override ? *abi_override : op.abi) + "_" + name;
    if (name == "thread_spawn") full = name;
    auto it = X->disp.find(full);
    if (it == X->disp.end()) { fprintf(stderr, "simwasi: no export %s\n", full.c_str()); _exit(96); }
    unsigned long long a[10] = {0}; int i = 0; for (uint64_t v : args) a[i++] = v;
    g_cur_op = &op; g_calls = &X->calls;
    sim::sut_enter();
    uint64_t r = it->second->fn(X->inst, a);
    sim::sut_leave();
    g_cur_op = nullptr; g_calls = nullptr;
    log_event(full.c_str(), r & 0xFFFFFFFFull);
    return r & 0xFFFFFFFFull;
}
static void begin_op(const Op&) { X->calls.clear(); g_callcount.clear(); g_reset(); }

static std::string viol_prefix() { return X->prop; }
static void V(const std::string& oracle, const std::string& site, const std::string& detail) { add_viol(viol_prefix() + "/" + oracle + "/" + site, detail); }

static bool expect_errno(const Op& op, const std::string& call, uint32_t got, int host_errno, const std::string& ctx = "") {
    int want = wasi_errno_of(host_errno);
    if (want == -1) { if (got == 0) { V("errno", call + ":success-instead-of-error", "host errno " + std::to_string(host_errno) + " " + ctx); return false; } return true; }
    if ((int)got != want) { V("errno", call + ":" + wasi_errno_name(want) + "-expected-got-" + wasi_errno_name((int)got), call + "(" + op.abi + ") returned " + std::to_string(got) + " (" + wasi_errno_name((int)got) + "), POSIX on the mirror gives " + (host_errno ? strerror(host_errno) : "success") + " = " + std::to_string(want) + " " + ctx); return false; }
    return true;
}

// ---------------------------------------------------------------- model helpers
static MFd* entry(int64_t fd) { if (fd < 0 || fd >= (int64_t)X->tab.size()) return nullptr; return &X->tab[(size_t)fd]; }
static bool live(int64_t fd) { MFd* e = entry(fd); return e && e->live; }
static std::string to_mirror(const std::string& p) { if (p.compare(0, X->P.size(), X->P) == 0) return X->M + p.substr(X->P.size()); return p; }
// model of path resolution: relative -> descriptor path + "/" + path; absolute -> as is
static bool g_either_zone = false;   // resolved length within 2 bytes below PATH_MAX: accept and reject are both defensible
static bool resolve(const MFd& d, const std::string& path, std::string* presolved, std::string* mresolved, bool* too_long) {
    *too_long = false;
    if (path.empty()) return false;
    std::string r;
    if (path[0] == '/') r = path;
    else { r = d.regpath; if (r.empty() || r.back() != '/') r += "/"; r += path; }
    if ((int)r.size() >= X->pmax - 2) { *too_long = true; g_either_zone = (int)r.size() < X->pmax; return false; }
    if (memchr(path.data(), 0, path.size())) { /* embedded NUL: host sees the prefix */ r = r.substr(0, r.find('\0')); }
    *presolved = r; *mresolved = to_mirror(r);
    return true;
}
static std::string norm_slashes(const std::string& p) { std::string o; for (char c : p) { if (c == '/' && !o.empty() && o.back() == '/') continue; o += c; } return o; }

struct TreeNode { char type; uint64_t size; uint64_t hash; std::string link; };
static uint64_t hash_sparse(const std::string& path, uint64_t* size_out) {
    int fd = __real_open(path.c_str(), O_RDONLY); if (fd < 0) return 0;
    struct stat st; __real_fstat(fd, &st); *size_out = (uint64_t)st.st_size;
    uint64_t h = FNV_INIT; off_t pos = 0; std::vector<unsigned char> buf(65536);
    while (pos < st.st_size) {
        off_t d = __real_lseek(fd, pos, SEEK_DATA); if (d < 0) break;
        off_t hole = __real_lseek(fd, d, SEEK_HOLE); if (hole < 0) hole = st.st_size;
        h = fnv_step(h, (uint64_t)d);
        off_t p = d;
        while (p < hole) { ssize_t n = pread(fd, buf.data(), (size_t)std::min<off_t>((off_t)buf.size(), hole - p), p); if (n <= 0) break; for (ssize_t i = 0; i < n; i++) { h ^= buf[(size_t)i]; h *= 0x100000001b3ull; } p += n; }
        pos = hole;
    }
    __real_close(fd);
    return h;
}
// a zero page inside a data extent vs. a hole must not matter: hash only non-zero 4 KiB blocks with their offsets
static uint64_t hash_content(const std::string& path, uint64_t* size_out) {
    int fd = __real_open(path.c_str(), O_RDONLY); if (fd < 0) return 0;
    struct stat st; __real_fstat(fd, &st); *size_out = (uint64_t)st.st_size;
    uint64_t h = FNV_INIT; off_t pos = 0; std::vector<unsigned char> buf(4096);
    while (pos < st.st_size) {
        off_t d = __real_lseek(fd, pos, SEEK_DATA); if (d < 0) break;
        off_t hole = __real_lseek(fd, d, SEEK_HOLE); if (hole < 0) hole = st.st_size;
        off_t p = d / 4096 * 4096;
        while (p < hole) {
            ssize_t n = pread(fd, buf.data(), buf.size(), p); if (n <= 0) break;
            bool nz = false; for (ssize_t i = 0; i < n; i++) if (buf[(size_t)i]) nz = true;
            if (nz) { h = fnv_step(h, (uint64_t)p); for (ssize_t i = 0; i < n; i++) { h ^= buf[(size_t)i]; h *= 0x100000001b3ull; } }
            p += n;
        }
        pos = hole;
    }
    __real_close(fd);
    return h;
}
static void tree_snapshot(const std::string& dir, const std::string& rel, std::map<std::string, TreeNode>& out) {
    DIR* d = __real_opendir(dir.c_str()); if (!d) return;
    std::vector<std::string> names; while (dirent* e = __real_readdir(d)) { std::string n = e->d_name; if (n != "." && n != "..") names.push_back(n); }
    __real_closedir(d);
    for (auto& n : names) {
        std::string p = dir + "/" + n, r = rel.empty() ? n : rel + "/" + n; struct stat st; if (__real_lstat(p.c_str(), &st) != 0) continue;
        TreeNode t; t.size = 0; t.hash = 0;
        if (S_ISDIR(st.st_mode)) { t.type = 'd'; out[r] = t; tree_snapshot(p, r, out); }
        else if (S_ISLNK(st.st_mode)) { char b[PATH_MAX]; ssize_t k = __real_readlink(p.c_str(), b, sizeof b); t.type = 'l'; t.link.assign(b, k > 0 ? (size_t)k : 0); out[r] = t; }
        else { t.type = 'f'; t.hash = hash_content(p, &t.size); out[r] = t; }
    }
}
static bool compare_trees(const std::string& when) {
    std::map<std::string, TreeNode> a, b; tree_snapshot(X->P, "", a); tree_snapshot(X->M, "", b);
    S->tree_compares++;
    for (auto& kv : a) {
        auto it = b.find(kv.first);
        if (it == b.end()) { V("tree", "extra-in-primary", when + ": " + kv.first + " exists only in the tree operated on through WASI"); return false; }
        if (it->second.type != kv.second.type) { V("tree", "type-differs", when + ": " + kv.first); return false; }
        if (kv.second.type == 'f' && (it->second.size != kv.second.size || it->second.hash != kv.second.hash)) { V("tree", "file-content-differs", when + ": " + kv.first + " size " + std::to_string(kv.second.size) + " vs mirror " + std::to_string(it->second.size)); return false; }
        if (kv.second.type == 'l') { if (to_mirror(kv.second.link) != it->second.link && kv.second.link != it->second.link) { V("tree", "symlink-target-differs", when + ": " + kv.first + " -> " + kv.second.link + " vs " + it->second.link); return false; } }
    }
    for (auto& kv : b) if (!a.count(kv.first)) { V("tree", "missing-in-primary", when + ": " + kv.first + " exists only in the mirror (POSIX) tree"); return false; }
    return true;
}

// position of the primary's native descriptor vs the mirror's
static void check_position(const Op& op, int64_t fd, const std::string& call) {
    MFd* e = entry(fd); if (!e || !e->live || e->mfd < 0 || e->dir) return;
    int nfd = -1, hasdir = 0; const char* pth = nullptr;
    if (!wglue_native_fd((unsigned)fd, &nfd, &hasdir, &pth) || nfd < 0) return;
    off_t a = __real_lseek(nfd, 0, SEEK_CUR), b = __real_lseek(e->mfd, 0, SEEK_CUR);
    if (a != b) V("position", call + (op.fault.empty() ? "" : ":after-" + op.fault), "file position after " + call + " on wasi fd " + std::to_string(fd) + " is " + std::to_string((long long)a) + ", POSIX reference " + std::to_string((long long)b));
}

// ---------------------------------------------------------------- ops
static const uint64_t R_READ = 2, R_WRITE = 64, R_SEEK = 4, R_TELL = 32, R_FDSTAT = 8;
static void op_path_open(const Op& op) {
    int64_t dfd = op.get("dirfd"); uint32_t oflags = (uint32_t)op.get("oflags"), fdflags = (uint32_t)op.get("fdflags"); uint64_t rights = (uint64_t)op.get("rights", R_READ | R_WRITE);
    uint32_t pp = gput(op.path), rp = galloc(4, 4);
    st32(rp, 0xDEADBEEF);
    MFd* d = entry(dfd);
    bool dlive = d && d->live && !d->stdio;
    g_either_zone = false;
    std::string pres, mres; bool toolong = false; bool okres = dlive && resolve(*d, op.path, &pres, &mres, &toolong);
    if (dlive && !okres && toolong && g_either_zone) return;
    int mfd = -1, merr = 0;
    int native = ((rights & R_WRITE) ? ((rights & R_READ) ? O_RDWR : O_WRONLY) : O_RDONLY);
    if (oflags & 1) native |= O_CREAT; if (oflags & 2) native |= O_DIRECTORY; if (oflags & 4) native |= O_EXCL; if (oflags & 8) native |= O_TRUNC; if (fdflags & 1) native |= O_APPEND;
    std::map<std::string, TreeNode> before; bool want_unchanged = !okres;
    if (want_unchanged) tree_snapshot(X->P, "", before);
    uint32_t r = (uint32_t)wcall(op, "path_open", {(uint64_t)dfd, 1, pp, op.path.size(), oflags, rights, rights, fdflags, rp});
    bool fired = !op.fault.empty() && g_callcount.count("open") && g_callcount["open"] >= op.fault_nth && op.fault == "open_emfile";
    if (!dlive) {
        if (d && d->stdio) { if (r == 0) V("descriptor", "path_open:stdio-as-directory-succeeded", "path_open with dirfd " + std::to_string(dfd)); }
        else if (r != 8) V("descriptor", "path_open:bad-dirfd-not-EBADF", "path_open with " + std::string(d ? "closed" : "never-issued") + " dirfd " + std::to_string(dfd) + " returned " + std::to_string(r));
        if (!X->calls.empty()) V("descriptor", "path_open:host-call-with-bad-dirfd", "host call " + X->calls[0].call + "(" + X->calls[0].path + ") for dirfd " + std::to_string(dfd));
        return;
    }
    if (!okres) {
        if (r == 0) V("path", std::string("path_open:") + (op.path.empty() ? "empty-path-accepted" : "overlong-path-accepted"), "path length " + std::to_string(op.path.size()));
        std::map<std::string, TreeNode> after; tree_snapshot(X->P, "", after);
        if (after.size() != before.size()) V("path", "path_open:rejected-path-changed-tree", "tree changed");
        for (auto& c : X->calls) if (!c.path.empty()) V("path", "path_open:host-call-for-rejected-path", c.call + " called with a path of length " + std::to_string(c.path.size()));
        if (r == 0) { uint32_t nfd = ld32(rp); while (X->tab.size() <= nfd && X->tab.size() < 4096) X->tab.push_back(MFd()); if (nfd < X->tab.size()) { X->tab[nfd].live = true; X->tab[nfd].mfd = -1; } }
        return;
    }
    if (fired) { if (r != 33) V("errno", "path_open:injected-EMFILE-not-reported", "returned " + std::to_string(r)); return; }
    if ((op.fault == "strndup_fail" && g_callcount.count("strndup") && g_callcount["strndup"] >= op.fault_nth) ||
        (op.fault == "realloc_fail" && g_callcount.count("realloc") && g_callcount["realloc"] >= op.fault_nth)) {
        // the descriptor could not be registered: the call has to fail and must not leave a usable table entry behind (later sweeps
        // over never-issued numbers check that); no descriptor number was handed out
        if (r == 0) V("errno", "path_open:failed-registration-reported-as-success", "the path copy / the table slot could not be allocated but path_open returned success");
        // the host open itself happened (it may have created or truncated the file): same effect on the mirror
        { int m2 = __real_open(mres.c_str(), native, 0644); if (m2 >= 0) __real_close(m2); }
        return;
    }

    mfd = __real_open(mres.c_str(), native, 0644); merr = mfd < 0 ? errno : 0;
    expect_errno(op, "path_open", r, merr, "flags " + std::to_string(native) + " path " + pres.substr(X->P.size() < pres.size() ? X->P.size() : 0).substr(0, 80));
    // seam: the path handed to open() names the model's resolved path
    for (auto& c : X->calls) if (c.call == "open" && norm_slashes(c.path) != norm_slashes(pres)) V("path", "path_open:host-path-differs-from-resolved", "open(" + c.path.substr(0, 200) + ") but resolved path is " + pres.substr(0, 200));
    if (r == 0) {
        uint32_t nfd = ld32(rp);
        check_u32_result_area(rp, "path_open");
        if (nfd < X->tab.size() && X->tab[nfd].live) { V("descriptor", "path_open:aliases-live-descriptor", "path_open returned " + std::to_string(nfd) + " which is still open"); if (mfd >= 0) __real_close(mfd); return; }
        if (nfd > 100000) { V("descriptor", "path_open:implausible-descriptor", std::to_string(nfd)); if (mfd >= 0) __real_close(mfd); return; }
        while (X->tab.size() <= nfd) X->tab.push_back(MFd());
        MFd e; e.live = true; e.mfd = mfd; e.ppath = pres; e.mpath = mres; e.regpath = pres; e.append = fdflags & 1;
        struct stat st; e.dir = mfd >= 0 && __real_fstat(mfd, &st) == 0 && S_ISDIR(st.st_mode);
        X->tab[nfd] = e;
    } else if (mfd >= 0) __real_close(mfd);
}

static void fill_unique(uint8_t* p, uint32_t n) { for (uint32_t i = 0; i < n; i++) p[i] = (uint8_t)(splitmix64(X->write_counter) >> 7) | 1; }

static void op_rw(const Op& op) {
    const std::string& nm = op.name; bool wr = nm == "fd_write" || nm == "fd_pwrite", pos = nm == "fd_pwrite" || nm == "fd_pread";
    int64_t fd = op.get("fd"); uint64_t off = (uint64_t)op.get("off");
    size_t niov = op.iov.size();
    uint32_t iovp = galloc((uint32_t)niov * 8 + 8, 4), rp = galloc(4, 4);
    std::vector<uint32_t> bufs; std::vector<std::vector<uint8_t>> orig;
    for (size_t i = 0; i < niov; i++) {
        uint32_t b = galloc(op.iov[i] + 1);
        if (wr) fill_unique(X->mem + b, op.iov[i]); else memset(X->mem + b, 0x5C, op.iov[i]);
        // an empty segment may point anywhere up to one past the end of memory: nothing is transferred through it
        if (op.iov[i] == 0 && op.get("empty_at_end")) b = X->memsize;
        bufs.push_back(b); st32(iovp + (uint32_t)i * 8, b); st32(iovp + (uint32_t)i * 8 + 4, op.iov[i]);
        orig.emplace_back(X->mem + b, X->mem + b + op.iov[i]);
    }
    st32(rp, 0xDEADBEEF);
    uint64_t faults_before = S->faults_fired;
    uint32_t r = pos ? (uint32_t)wcall(op, nm, {(uint64_t)fd, iovp, niov, off, rp}) : (uint32_t)wcall(op, nm, {(uint64_t)fd, iovp, niov, rp});
    bool fired = S->faults_fired != faults_before;
    MFd* e = entry(fd);
    if (!e || !e->live) {
        if (r != 8) V("descriptor", nm + ":bad-fd-not-EBADF", nm + " on " + (e ? "closed" : "never-issued") + " descriptor " + std::to_string(fd) + " returned " + std::to_string(r) + " (" + wasi_errno_name((int)r) + ")");
        for (auto& c : X->calls) V("descriptor", nm + ":host-call-with-bad-fd", "host call " + c.call + " on fd " + std::to_string(c.fd));
        return;
    }
    if (e->stdio) {
        bool seen = false; for (auto& c : X->calls) if ((c.call == "writev" || c.call == "readv") && c.fd == (int)fd) seen = true;
        if (!pos && r == 0 && !seen && niov > 0) V("descriptor", nm + ":stdio-not-host-stream", "wasi fd " + std::to_string(fd) + " did not reach host fd " + std::to_string(fd));
        return;
    }
    if (e->preopen) { if (r == 0) V("descriptor", nm + ":io-on-preopened-directory-succeeded", ""); return; }
    if (e->mfd < 0) return;
    // mirror
    std::vector<struct iovec> miov; std::vector<std::vector<uint8_t>> mbuf(niov);
    for (size_t i = 0; i < niov; i++) { struct iovec v; if (wr) { v.iov_base = orig[i].data(); } else { mbuf[i].assign(op.iov[i] + 1, 0x5C); v.iov_base = mbuf[i].data(); } v.iov_len = op.iov[i]; miov.push_back(v); }
    if (miov.empty()) { struct iovec v; v.iov_base = (void*)""; v.iov_len = 0; miov.push_back(v); }
    ssize_t mr = 0; int merr = 0;
    const std::string& f = op.fault;
    if (fired && f == "malloc_fail") {
        // the call could not marshal its vector: it has to say so (NOMEM) and must not have touched file, position or buffers
        if (r != 48) V("errno", nm + ":injected-allocation-failure-not-reported", "returned " + std::to_string(r) + " (" + wasi_errno_name((int)r) + ") expected NOMEM");
        for (auto& c : X->calls) if (c.call == "readv" || c.call == "writev" || c.call == "read" || c.call == "write") V("data", nm + ":transfer-after-allocation-failure", "host call " + c.call);
        check_position(op, fd, nm);
        return;
    }
    size_t seg_cut = SIZE_MAX;
    if (fired && g_nouio && f != "lseek_fail") {
        // fault injected at one segment's read()/write() inside the SUT's own vector emulation: an interrupted call may be retried, an
        // error after a partial transfer yields the partial count. Whatever count is reported, exactly that prefix must have been moved.
        if (r != 0) {
            int want = f.compare(0, 5, "eintr") == 0 ? 27 : f == "enospc_write" ? 51 : 29;
            if ((int)r == want) { check_position(op, fd, nm); return; }
            // another error: judged like an un-faulted call (the kernel reports it on the mirror too, e.g. EBADF for a write-only file)
        } else {
            size_t total = 0; for (uint32_t l : op.iov) total += l;
            if (ld32(rp) > total) { V("count", nm + ":after-" + f, "reported " + std::to_string(ld32(rp)) + " of " + std::to_string(total) + " bytes"); return; }
            seg_cut = ld32(rp);
        }
    } else
    if (fired && (f == "eintr_write" || f == "eintr_read" || f == "eio_write" || f == "eio_read" || f == "enospc_write" || f == "lseek_fail")) {
        int want = f.compare(0, 5, "eintr") == 0 ? 27 : f == "enospc_write" ? 51 : 29;
        if ((int)r != want) V("errno", nm + ":injected-" + f + "-not-reported", "returned " + std::to_string(r) + " expected " + std::to_string(want));
        check_position(op, fd, nm);
        return;
    }
    size_t cut = seg_cut != SIZE_MAX ? seg_cut : (fired && (f == "short_write" || f == "short_read")) ? (size_t)op.fault_param : SIZE_MAX;
    {
        std::vector<struct iovec> c; size_t left = cut;
        for (auto v : miov) { if (left == 0 && cut != SIZE_MAX) break; if (v.iov_len > left) v.iov_len = left; left -= std::min(left, v.iov_len); c.push_back(v); }
        if (c.empty()) { struct iovec v; v.iov_base = (void*)""; v.iov_len = 0; c.push_back(v); }
        // the reference is the kernel's own vector I/O (not whatever 'readv' resolves to in this link: the build without <sys/uio.h> has the SUT's emulation there)
        if (wr) mr = pos ? pwritev(e->mfd, c.data(), (int)c.size(), (off_t)off) : syscall(SYS_writev, e->mfd, c.data(), (int)c.size());
        else mr = pos ? preadv(e->mfd, c.data(), (int)c.size(), (off_t)off) : syscall(SYS_readv, e->mfd, c.data(), (int)c.size());
        merr = mr < 0 ? errno : 0;
    }
    std::string ctx = "fd " + std::to_string(fd) + " iov " + std::to_string(niov) + (pos ? " offset " + std::to_string(off) : "");
    if (!expect_errno(op, nm, r, merr, ctx)) { check_position(op, fd, nm); return; }
    if (r == 0) {
        uint32_t n = ld32(rp);
        check_u32_result_area(rp, nm);
        if ((ssize_t)n != mr) V("count", nm + (pos && off >= (1ull << 32) ? ":offset>=2^32" : "") + (fired ? ":after-" + f : ""), nm + " reported " + std::to_string(n) + " bytes, POSIX reference " + std::to_string((long long)mr) + " (" + ctx + ")");
        if (!wr) {
            size_t left = (size_t)std::max<ssize_t>(mr, 0);
            for (size_t i = 0; i < niov; i++) {
                size_t k = std::min<size_t>(left, op.iov[i]); left -= k;
                if (memcmp(X->mem + bufs[i], mbuf[i].data(), k) != 0) { V("data", nm + ":bytes-differ" + (pos && off >= (1ull << 32) ? ":offset>=2^32" : ""), nm + " delivered different bytes than POSIX in segment " + std::to_string(i) + " (" + ctx + ")"); break; }
                for (size_t j = k; j < op.iov[i]; j++) if (X->mem[bufs[i] + j] != 0x5C) { S->extra_guest_writes++; break; }
            }
        }
    }
    check_position(op, fd, nm);
}

static void op_seek_tell(const Op& op) {
    int64_t fd = op.get("fd"); uint32_t rp = galloc(8, 8); uint64_t sentinel = 0x1122334455667788ull; memcpy(X->mem + rp, &sentinel, 8);
    bool tell = op.name == "fd_tell"; int64_t off = op.get("off"); uint32_t wh = (uint32_t)op.get("whence");
    uint32_t r = tell ? (uint32_t)wcall(op, "fd_tell", {(uint64_t)fd, rp}) : (uint32_t)wcall(op, "fd_seek", {(uint64_t)fd, (uint64_t)off, wh, rp});
    MFd* e = entry(fd);
    if (!e || !e->live) { if (r != 8) V("descriptor", op.name + ":bad-fd-not-EBADF", op.name + " on bad descriptor " + std::to_string(fd) + " returned " + std::to_string(r)); for (auto& c : X->calls) V("descriptor", op.name + ":host-call-with-bad-fd", c.call); return; }
    if (e->stdio || e->preopen || e->mfd < 0) return;
    int native = SEEK_CUR;
    if (!tell) {
        if (wh > 2) { if (r != 28) V("errno", "fd_seek:invalid-whence-not-EINVAL", "whence " + std::to_string(wh) + " returned " + std::to_string(r)); check_position(op, fd, op.name); return; }
        static const int p1[] = {SEEK_SET, SEEK_CUR, SEEK_END}, un[] = {SEEK_CUR, SEEK_END, SEEK_SET};
        native = op.abi == "p1" ? p1[wh] : un[wh];
    }
    off_t mr = __real_lseek(e->mfd, tell ? 0 : (off_t)off, native); int merr = mr == (off_t)-1 ? errno : 0;
    if (!expect_errno(op, op.name + "(" + op.abi + ")", r, merr, "offset " + std::to_string(off) + " whence " + std::to_string(wh))) { check_position(op, fd, op.name); return; }
    if (r == 0 && ld64(rp) != (uint64_t)mr) V("offset", op.name + "(" + op.abi + "):whence" + std::to_string(wh), op.name + " stored offset " + std::to_string(ld64(rp)) + ", POSIX reference " + std::to_string((long long)mr));
    check_position(op, fd, op.name);
}

static void check_filestat(const Op& op, uint32_t sp, const struct stat& ms, const struct stat* ps, const std::string& call) {
    bool p1 = op.abi == "p1";
    uint64_t dev = ld64(sp), ino = ld64(sp + 8); uint8_t ft = X->mem[sp + 16];
    uint64_t nlink = p1 ? ld64(sp + 24) : ld32(sp + 20), size = ld64(sp + (p1 ? 32 : 24));
    uint64_t at = ld64(sp + (p1 ? 40 : 32)), mt = ld64(sp + (p1 ? 48 : 40)), ct = ld64(sp + (p1 ? 56 : 48));
    int wt = S_ISDIR(ms.st_mode) ? 3 : S_ISREG(ms.st_mode) ? 4 : S_ISCHR(ms.st_mode) ? 2 : S_ISLNK(ms.st_mode) ? 7 : S_ISBLK(ms.st_mode) ? 1 : 0;
    std::string site = call + "(" + op.abi + ")";
    if (ft != wt) V("filestat", site + ":filetype", "filetype " + std::to_string(ft) + " expected " + std::to_string(wt));
    if (size != (uint64_t)ms.st_size) V("filestat", site + ":size", "size " + std::to_string(size) + " expected " + std::to_string((long long)ms.st_size));
    if (nlink != (uint64_t)ms.st_nlink) V("filestat", site + ":nlink", "nlink " + std::to_string(nlink) + " expected " + std::to_string((long long)ms.st_nlink));
    if (ps) {
        if (dev != (uint64_t)ps->st_dev || ino != (uint64_t)ps->st_ino) V("filestat", site + ":dev-ino", "dev/ino " + std::to_string(dev) + "/" + std::to_string(ino));
        uint64_t ea = (uint64_t)ps->st_atim.tv_sec * 1000000000ull + (uint64_t)ps->st_atim.tv_nsec, em = (uint64_t)ps->st_mtim.tv_sec * 1000000000ull + (uint64_t)ps->st_mtim.tv_nsec, ec = (uint64_t)ps->st_ctim.tv_sec * 1000000000ull + (uint64_t)ps->st_ctim.tv_nsec;
        if (at != ea || mt != em || ct != ec) V("filestat", site + ":timestamps", "atim/mtim/ctim " + std::to_string(at) + "/" + std::to_string(mt) + "/" + std::to_string(ct) + " expected " + std::to_string(ea) + "/" + std::to_string(em) + "/" + std::to_string(ec));
    }
}
static void op_fd_filestat(const Op& op) {
    int64_t fd = op.get("fd"); uint32_t sp = galloc(64, 8); memset(X->mem + sp, 0xEE, 64);
    uint32_t r = (uint32_t)wcall(op, "fd_filestat_get", {(uint64_t)fd, sp});
    MFd* e = entry(fd);
    if (!e || !e->live) { if (r != 8) V("descriptor", "fd_filestat_get:bad-fd-not-EBADF", "returned " + std::to_string(r) + " for " + (e ? "closed" : "never-issued") + " descriptor " + std::to_string(fd)); for (auto& c : X->calls) V("descriptor", "fd_filestat_get:host-call-with-bad-fd", c.call + " " + c.path.substr(0, 60)); return; }
    if (e->stdio) return;
    struct stat ms, ps; int mrc, prc = -1;
    if (e->mfd >= 0) mrc = __real_fstat(e->mfd, &ms); else mrc = __real_stat(e->mpath.c_str(), &ms);
    int merr = mrc ? errno : 0;
    int nfd = -1, hd = 0; const char* pp = nullptr;
    if (wglue_native_fd((unsigned)fd, &nfd, &hd, &pp) && nfd >= 0) prc = __real_fstat(nfd, &ps); else prc = __real_stat(e->ppath.c_str(), &ps);
    if (!expect_errno(op, "fd_filestat_get", r, merr)) return;
    if (r == 0) check_filestat(op, sp, ms, prc == 0 ? &ps : nullptr, "fd_filestat_get");
}

static void op_fd_close(const Op& op) {
    int64_t fd = op.get("fd");
    MFd* e = entry(fd); bool was_live = e && e->live;
    uint64_t faults_before = S->faults_fired;
    uint32_t r = (uint32_t)wcall(op, "fd_close", {(uint64_t)fd});
    if (!was_live) {
        if (r != 8) V("descriptor", std::string("fd_close:") + (e ? "second-close-not-EBADF" : "never-issued-not-EBADF"), "fd_close(" + std::to_string(fd) + ") returned " + std::to_string(r));
        for (auto& c : X->calls) V("descriptor", "fd_close:host-call-with-bad-fd", c.call + " fd " + std::to_string(c.fd));
        return;
    }
    if (e->stdio) { e->live = false; return; }
    if (faults_before != S->faults_fired) {
        // the host close failed and left the descriptor open: fd_close must report an error and the descriptor stays usable
        if (r == 0) V("errno", "fd_close:injected-close-failure-not-reported", "host close() failed but fd_close returned success");
        return;
    }
    if (r != 0) { V("errno", "fd_close:failed-on-open-descriptor", "returned " + std::to_string(r)); return; }
    if (e->mfd >= 0) __real_close(e->mfd);
    e->live = false; e->mfd = -1;
}

// every descriptor-taking call on a closed / never-issued number must fail with EBADF and make no host call
static void op_badfd_sweep(const Op& op) {
    int64_t fd = op.get("fd");
    if (live(fd)) return;
    std::string p = gput("x") ? "" : ""; (void)p;
    static const char* abis[] = {"p1", "u"};
    for (const char* abi : abis) {
        std::string a = abi;
        struct C { const char* name; std::vector<uint64_t> args; };
        uint32_t buf = galloc(512, 8), pth = gput("somename"), iov = galloc(8, 4), res = galloc(8, 8);
        st32(iov, buf); st32(iov + 4, 16);
        uint64_t F = (uint64_t)fd;
        std::vector<C> calls = {
            {"fd_datasync", {F}}, {"fd_fdstat_get", {F, buf}}, {"fd_filestat_get", {F, buf}}, {"fd_pread", {F, iov, 1, 0, res}}, {"fd_prestat_get", {F, buf}},
            {"fd_prestat_dir_name", {F, buf, 64}}, {"fd_pwrite", {F, iov, 1, 0, res}}, {"fd_read", {F, iov, 1, res}}, {"fd_readdir", {F, buf, 256, 0, res}},
            {"fd_seek", {F, 0, 0, res}}, {"fd_sync", {F}}, {"fd_tell", {F, res}}, {"fd_write", {F, iov, 1, res}}, {"path_create_directory", {F, pth, 8}},
            {"path_filestat_get", {F, 1, pth, 8, buf}}, {"path_open", {F, 1, pth, 8, 0, R_READ, R_READ, 0, res}}, {"path_readlink", {F, pth, 8, buf, 64, res}},
            {"path_remove_directory", {F, pth, 8}}, {"path_rename", {F, pth, 8, 3, pth, 8}}, {"path_rename", {3, pth, 8, F, pth, 8}}, {"path_symlink", {pth, 8, F, pth, 8}},
            {"path_unlink_file", {F, pth, 8}}, {"fd_close", {F}},
        };
        for (auto& c : calls) {
            X->calls.clear();
            std::string full = a + "_" + c.name;
            auto it = X->disp.find(full); if (it == X->disp.end()) continue;
            unsigned long long av[10] = {0}; for (size_t i = 0; i < c.args.size(); i++) av[i] = c.args[i];
            g_cur_op = &op; g_calls = &X->calls; sim::sut_enter();
            uint32_t r = (uint32_t)it->second->fn(X->inst, av);
            sim::sut_leave(); g_cur_op = nullptr; g_calls = nullptr;
            log_event(full.c_str(), r);
            bool closed = entry(fd) != nullptr;
            if (r != 8) V("descriptor", std::string(c.name) + (closed ? ":closed-fd-not-EBADF" : ":never-issued-fd-not-EBADF"), full + "(" + std::to_string(fd) + ") returned " + std::to_string(r) + " (" + wasi_errno_name((int)r) + ")");
            for (auto& h : X->calls) { if (h.call == "stat" || h.call == "lstat" || h.call == "open" || h.call == "opendir" || h.call == "mkdir" || h.call == "rmdir" || h.call == "unlink" || h.call == "rename" || h.call == "symlink" || h.call == "readlink" || h.call == "close" || h.call == "closedir" || h.call == "fstat" || h.call == "lseek" || h.call == "readv" || h.call == "writev") V("descriptor", std::string(c.name) + ":host-call-with-bad-fd", full + "(" + std::to_string(fd) + ") made host call " + h.call); }
        }
    }
}

static void op_prestat(const Op& op) {
    int64_t fd = op.get("fd"); uint32_t sp = galloc(8, 4); memset(X->mem + sp, 0xEE, 8);
    uint32_t r = (uint32_t)wcall(op, "fd_prestat_get", {(uint64_t)fd, sp});
    MFd* e = entry(fd);
    if (!e || !e->live) { if (r != 8) V("descriptor", "fd_prestat_get:bad-fd-not-EBADF", "returned " + std::to_string(r)); return; }
    if (!e->preopen) return;
    if (r != 0) { V("prestat", "fd_prestat_get:failed-on-preopen", "returned " + std::to_string(r)); return; }
    if (X->mem[sp] != 0) V("prestat", "fd_prestat_get:tag", "tag " + std::to_string(X->mem[sp]));
    if (ld32(sp + 4) != e->regpath.size()) V("prestat", "fd_prestat_get:name-length", "length " + std::to_string(ld32(sp + 4)) + " expected " + std::to_string(e->regpath.size()));
    uint32_t want = (uint32_t)e->regpath.size(); int64_t delta = op.get("lendelta");
    uint32_t len = (uint32_t)std::max<int64_t>(0, (int64_t)want + delta);
    uint32_t bp = galloc(len + 8); memset(X->mem + bp, 0x77, len + 8);
    uint32_t r2 = (uint32_t)wcall(op, "fd_prestat_dir_name", {(uint64_t)fd, bp, len});
    if (len >= want) {
        if (r2 != 0) V("prestat", "fd_prestat_dir_name:failed", "returned " + std::to_string(r2) + " with a buffer of " + std::to_string(len) + " for a name of " + std::to_string(want));
        else if (memcmp(X->mem + bp, e->regpath.data(), want) != 0) V("prestat", "fd_prestat_dir_name:name-differs", "");
    }
    for (uint32_t k = len; k < len + 8; k++) if (X->mem[bp + k] != 0x77) { S->extra_guest_writes++; break; }
}

// ---- path operations (C14)
static void op_path_generic(const Op& op) {
    const std::string& nm = op.name;
    int64_t dfd = op.get("dirfd"), dfd2 = op.get("dirfd2", dfd);
    MFd* d = entry(dfd); MFd* d2 = entry(dfd2);
    bool dl = d && d->live && !d->stdio, dl2 = d2 && d2->live && !d2->stdio;
    uint32_t pp = gput(op.path), pp2 = nm == "path_rename" || nm == "path_symlink" ? gput(op.path2) : 0;
    std::string pr, mr, pr2, mr2; bool tl = false, tl2 = false;
    g_either_zone = false;
    bool ok = dl && resolve(*d, op.path, &pr, &mr, &tl), ok2 = true;
    if (nm == "path_rename") ok2 = dl2 && resolve(*d2, op.path2, &pr2, &mr2, &tl2);
    if (nm == "path_symlink") { /* path = link location (resolved), path2 = target (raw) */ ok2 = (int)op.path2.size() < X->pmax - 2; }
    if (g_either_zone || (nm == "path_symlink" && (int)op.path2.size() >= X->pmax - 2 && (int)op.path2.size() < X->pmax)) return;
    std::map<std::string, TreeNode> before; bool reject = dl && dl2 && (!ok || !ok2);
    if (reject || !dl || !dl2) tree_snapshot(X->P, "", before);
    uint32_t r = 0; uint32_t sp = 0, bp = 0, lp = 0; uint32_t blen = (uint32_t)op.get("buflen", 64);
    if (nm == "path_create_directory") r = (uint32_t)wcall(op, nm, {(uint64_t)dfd, pp, op.path.size()});
    else if (nm == "path_remove_directory") r = (uint32_t)wcall(op, nm, {(uint64_t)dfd, pp, op.path.size()});
    else if (nm == "path_unlink_file") r = (uint32_t)wcall(op, nm, {(uint64_t)dfd, pp, op.path.size()});
    else if (nm == "path_rename") r = (uint32_t)wcall(op, nm, {(uint64_t)dfd, pp, op.path.size(), (uint64_t)dfd2, pp2, op.path2.size()});
    else if (nm == "path_symlink") r = (uint32_t)wcall(op, nm, {pp2, op.path2.size(), (uint64_t)dfd, pp, op.path.size()});
    else if (nm == "path_readlink") { bp = galloc(blen + 8); memset(X->mem + bp, 0x66, blen + 8); lp = galloc(4, 4); st32(lp, 0xDEADBEEF); r = (uint32_t)wcall(op, nm, {(uint64_t)dfd, pp, op.path.size(), bp, blen, lp}); }
    else if (nm == "path_filestat_get") { sp = galloc(64, 8); memset(X->mem + sp, 0xEE, 64); r = (uint32_t)wcall(op, nm, {(uint64_t)dfd, 1, pp, op.path.size(), sp}); }
    if (!dl || !dl2) {
        bool stdio = (d && d->stdio) || (d2 && d2->stdio);
        if (stdio) { if (r == 0) V("descriptor", nm + ":stdio-as-directory-succeeded", ""); }
        else if (r != 8) {
            // error precedence is not fixed when a path is unacceptable as well: EINVAL is then equally right
            bool badpath = op.path.empty() || (int)op.path.size() >= X->pmax - 300 || ((nm == "path_rename" || nm == "path_symlink") && (op.path2.empty() || (int)op.path2.size() >= X->pmax - 300));
            if (!(badpath && r == 28)) V("descriptor", nm + ":bad-dirfd-not-EBADF", nm + " with bad directory descriptor returned " + std::to_string(r));
        }
        for (auto& c : X->calls) if (!c.path.empty()) V("descriptor", nm + ":host-call-with-bad-dirfd", c.call + "(" + c.path.substr(0, 80) + ")");
        return;
    }
    if (reject) {
        bool empty = op.path.empty() || (nm == "path_rename" && op.path2.empty());
        if (r == 0) V("path", nm + (empty ? ":empty-path-accepted" : ":overlong-path-accepted"), "lengths " + std::to_string(op.path.size()) + "/" + std::to_string(op.path2.size()));
        std::map<std::string, TreeNode> after; tree_snapshot(X->P, "", after);
        if (after.size() != before.size()) V("path", nm + ":rejected-path-changed-tree", "");
        for (auto& c : X->calls) if (!c.path.empty() && c.call != "rename2") V("path", nm + ":host-call-for-rejected-path", c.call + " called with a path of length " + std::to_string(c.path.size()));
        return;
    }
    int rc = 0; struct stat ms; char lb[PATH_MAX]; ssize_t ll = 0;
    if (nm == "path_create_directory") rc = __real_mkdir(mr.c_str(), 0755);
    else if (nm == "path_remove_directory") rc = __real_rmdir(mr.c_str());
    else if (nm == "path_unlink_file") rc = __real_unlink(mr.c_str());
    else if (nm == "path_rename") rc = __real_rename(mr.c_str(), mr2.c_str());
    else if (nm == "path_symlink") { std::string tgt = op.path2; size_t z = tgt.find('\0'); if (z != std::string::npos) tgt = tgt.substr(0, z); rc = __real_symlink(tgt.c_str(), mr.c_str()); }
    else if (nm == "path_readlink") { ll = __real_readlink(mr.c_str(), lb, blen); rc = ll < 0 ? -1 : 0; }
    else if (nm == "path_filestat_get") rc = __real_stat(mr.c_str(), &ms);
    int merr = rc ? errno : 0;
    expect_errno(op, nm, r, merr, "path " + pr.substr(X->P.size() < pr.size() ? X->P.size() : 0).substr(0, 60));
    // seam check: path-taking host calls received the model's resolved path
    for (auto& c : X->calls) {
        if (c.path.empty()) continue;
        const std::string& want = (c.call == "rename2") ? pr2 : pr;
        if (c.call == "symlink") continue;
        if (norm_slashes(c.path) != norm_slashes(want)) V("path", nm + ":host-path-differs-from-resolved", c.call + "(" + c.path.substr(0, 160) + ") but the resolved path is " + want.substr(0, 160));
    }
    if (r == 0 && merr == 0) {
        if (nm == "path_readlink") {
            uint32_t n = ld32(lp);
            if ((ssize_t)n != ll) V("readlink", "path_readlink:length", "length " + std::to_string(n) + " expected " + std::to_string((long long)ll));
            else { std::string got((char*)X->mem + bp, n), want(lb, (size_t)ll); if (to_mirror(got) != want && got != want) V("readlink", "path_readlink:bytes", got.substr(0, 60) + " vs " + want.substr(0, 60)); }
            for (uint32_t k = blen; k < blen + 8; k++) if (X->mem[bp + k] != 0x66) { V("path", "path_readlink:wrote-past-buffer", "buffer length " + std::to_string(blen)); break; }
        }
        if (nm == "path_filestat_get") { struct stat ps; int prc = __real_stat(pr.c_str(), &ps); check_filestat(op, sp, ms, prc == 0 ? &ps : nullptr, "path_filestat_get"); }
    }
    // a directory descriptor opened before a rename/removal may denote the old or the new object: not judged afterwards
    if (r == 0 && (nm == "path_rename" || nm == "path_remove_directory")) for (auto& t : X->tab) if (t.live && t.dir && !t.preopen) t.stale = true;
    if (nm != "path_readlink" && nm != "path_filestat_get") compare_trees("after " + nm);
}

// ---- fd_readdir listing protocol
struct DirEnt { uint64_t next, ino; uint32_t namlen; uint8_t type; std::string name; };
static std::string hexs(unsigned v) { char b[16]; snprintf(b, sizeof b, "0x%02x", v); return b; }
// bytes of the last call's buffer behind its last complete entry (a truncated entry may have been written there)
static std::vector<uint8_t> g_readdir_tail;
static bool readdir_call(const Op& op, int64_t fd, uint32_t buflen, uint64_t cookie, std::vector<DirEnt>& out, uint32_t* used, uint32_t* err, bool* truncated) {
    g_readdir_tail.clear();
    uint32_t bp = galloc(buflen + 8, 8), up = galloc(4, 4); memset(X->mem + bp, 0x44, buflen + 8); st32(up, 0xDEADBEEF);
    uint32_t r = (uint32_t)wcall(op, "fd_readdir", {(uint64_t)fd, bp, buflen, cookie, up});
    *err = r; *truncated = false;
    if (r != 0) return false;
    uint32_t u = ld32(up); *used = u;
    if (u > buflen) { V("readdir", "fd_readdir:bufused-exceeds-buffer", std::to_string(u) + " > " + std::to_string(buflen)); return false; }
    for (uint32_t k = buflen; k < buflen + 8; k++) if (X->mem[bp + k] != 0x44) { V("readdir", "fd_readdir:wrote-past-buffer", "buffer length " + std::to_string(buflen)); break; }
    uint32_t p = 0;
    while (p + 24 <= u) {
        DirEnt e; e.next = ld64(bp + p); e.ino = ld64(bp + p + 8); e.namlen = ld32(bp + p + 16); e.type = X->mem[bp + p + 20];
        if (p + 24 + e.namlen > u) { *truncated = true; break; }
        e.name.assign((char*)X->mem + bp + p + 24, e.namlen);
        out.push_back(e); p += 24 + e.namlen;
    }
    if (p < u && !*truncated) *truncated = true;   // partial header
    if (u == buflen && p < buflen) g_readdir_tail.assign(X->mem + bp + p, X->mem + bp + buflen);
    return true;
}
// A truncated trailing entry is allowed, but what was written of it must be the beginning of the entry that comes next, in the same
// layout as complete entries (fields through the memory accessors of their width); untouched bytes still hold the fill pattern.
static void check_readdir_tail(const std::vector<uint8_t>& tail, const DirEnt& nxt) {
    if (tail.empty()) return;
    std::vector<uint8_t> img(24 + nxt.name.size(), 0); std::vector<bool> care(img.size(), true);
    auto put = [&](size_t off, uint64_t v, int w) {
#ifdef SIMWASI_BE
        for (int i = 0; i < w; i++) img[off + (size_t)i] = (uint8_t)(v >> (8 * (w - 1 - i)));
#else
        for (int i = 0; i < w; i++) img[off + (size_t)i] = (uint8_t)(v >> (8 * i));
#endif
    };
    put(0, nxt.next, 8); put(8, nxt.ino, 8); put(16, nxt.namlen, 4); img[20] = (uint8_t)nxt.type; care[21] = care[22] = care[23] = false;
    memcpy(img.data() + 24, nxt.name.data(), nxt.name.size());
    for (size_t i = 0; i < tail.size() && i < img.size(); i++) {
        if (!care[i] || tail[i] == 0x44 || tail[i] == img[i]) continue;
        V("readdir", "fd_readdir:truncated-entry-bytes", "byte " + std::to_string(i) + " of the truncated trailing entry is " + hexs(tail[i]) + ", the entry that follows ('" + nxt.name.substr(0, 30) + "') has " + hexs(img[i]) + " there");
        return;
    }
}
static bool list_dir(const Op& op, int64_t fd, uint32_t buflen, uint64_t start_cookie, std::vector<DirEnt>& all, std::string* abort_reason) {
    uint64_t cookie = start_cookie; int guard = 0;
    while (guard++ < 400) {
        std::vector<DirEnt> got; uint32_t used = 0, err = 0; bool trunc = false;
        g_reset();
        std::vector<uint8_t> prev_tail = g_readdir_tail;
        if (!readdir_call(op, fd, buflen, cookie, got, &used, &err, &trunc)) { *abort_reason = "error " + std::to_string(err); return false; }
        if (guard > 1 && !got.empty()) check_readdir_tail(prev_tail, got[0]);
        for (auto& e : got) all.push_back(e);
        if (!got.empty()) cookie = got.back().next;
        if (used < buflen) return true;                      // listing complete
        if (got.empty()) { buflen = buflen * 2 + 24; if (buflen > 70000) { *abort_reason = "no progress"; return false; } }   // buffer cannot hold the next entry
    }
    *abort_reason = "too many calls"; return false;
}
static void op_readdir(const Op& op) {
    int64_t fd = op.get("fd"); uint32_t buflen = (uint32_t)op.get("buflen", 256);
    MFd* e = entry(fd);
    g_dtype_unknown = op.get("dtype_unknown") != 0;
    struct Reset { ~Reset() { g_dtype_unknown = false; } } reset;
    if (!e || !e->live) {
        std::vector<DirEnt> g; uint32_t u = 0, err = 0; bool t = false; readdir_call(op, fd, buflen, 0, g, &u, &err, &t);
        if (err != 8) V("descriptor", "fd_readdir:bad-fd-not-EBADF", "returned " + std::to_string(err));
        return;
    }
    if (e->stdio || (!e->dir && !e->preopen) || e->stale) return;     // not a directory: outside the statement
    if (X->prop == "C13") { std::vector<DirEnt> g; uint32_t u = 0, err = 0; bool t = false; readdir_call(op, fd, buflen, 0, g, &u, &err, &t); return; }   // listing rules belong to C14
    { struct stat dst; if (__real_stat(e->mpath.c_str(), &dst) != 0 || !S_ISDIR(dst.st_mode)) return; }   // the directory was removed or renamed since it was opened
    uint64_t faults_before = S->faults_fired; std::string site_fault;
    std::vector<DirEnt> all; std::string why;
    bool ok = list_dir(op, fd, buflen, 0, all, &why);
    // injected host error: the listing may fail - but if it claims to have succeeded it has to be complete (an error must not be
    // turned into "end of directory")
    if (S->faults_fired != faults_before && !ok) return;
    if (S->faults_fired != faults_before) site_fault = ":after-" + op.fault;
    std::string site = std::string("fd_readdir") + (op.get("dtype_unknown") ? ":dtype-unknown" : "") + site_fault;
    if (!ok) { V("readdir", site + ":listing-failed", "listing of " + e->ppath.substr(X->P.size()) + " with buffer " + std::to_string(buflen) + " failed: " + why); return; }
    // expected names from the mirror directory
    std::set<std::string> want; { DIR* d = __real_opendir(e->mpath.c_str()); if (d) { while (dirent* de = __real_readdir(d)) want.insert(de->d_name); __real_closedir(d); } }
    std::map<std::string, int> seen; for (auto& x : all) seen[x.name]++;
    for (auto& n : want) if (!seen.count(n)) { V("readdir", site + ":entry-missing", "entry '" + n.substr(0, 40) + "' (length " + std::to_string(n.size()) + ") never delivered; buffer " + std::to_string(buflen) + ", " + std::to_string(want.size()) + " entries"); return; }
    for (auto& kv : seen) { if (!want.count(kv.first)) { V("readdir", site + ":unknown-entry", "entry '" + kv.first.substr(0, 40) + "' is not in the directory"); return; } if (kv.second > 1) { V("readdir", site + ":entry-delivered-twice", kv.first.substr(0, 40)); return; } }
    for (auto& x : all) {
        struct stat st; std::string p = e->ppath + "/" + x.name;
        if (__real_lstat(p.c_str(), &st) != 0) continue;
        if (x.ino != (uint64_t)st.st_ino) { V("readdir", site + ":d_ino", x.name.substr(0, 30) + " ino " + std::to_string(x.ino) + " expected " + std::to_string((unsigned long long)st.st_ino)); break; }
        int wt = S_ISDIR(st.st_mode) ? 3 : S_ISREG(st.st_mode) ? 4 : S_ISLNK(st.st_mode) ? 7 : S_ISCHR(st.st_mode) ? 2 : 0;
        if (x.type != wt) { V("readdir", site + ":d_type", x.name.substr(0, 30) + " type " + std::to_string(x.type) + " expected " + std::to_string(wt)); break; }
    }
    // resume from a returned cookie: exactly the entries that followed it in the first listing
    if (all.size() >= 2 && op.get("resume", 1)) {
        size_t j = (size_t)(op.get("resume_at", 0) % (int64_t)(all.size() - 1));
        std::vector<DirEnt> rest; std::string why2;
        if (list_dir(op, fd, buflen + 64, all[j].next, rest, &why2)) {
            bool same = rest.size() == all.size() - j - 1;
            for (size_t k = 0; same && k < rest.size(); k++) if (rest[k].name != all[j + 1 + k].name) same = false;
            if (!same) V("readdir", site + ":resume-from-cookie", "resuming after entry " + std::to_string(j) + " of " + std::to_string(all.size()) + " delivered " + std::to_string(rest.size()) + " entries, expected " + std::to_string(all.size() - j - 1));
        } else if (S->faults_fired == faults_before) V("readdir", site + ":resume-failed", why2);
    }
    // cookie 0 restarts from the beginning, also on a descriptor that was already listed
    if (op.get("restart", 1)) {
        std::vector<DirEnt> again; std::string why3;
        if (list_dir(op, fd, buflen + 100, 0, again, &why3)) {
            std::set<std::string> s2; for (auto& x : again) s2.insert(x.name);
            if (s2 != want) V("readdir", site + ":cookie-0-does-not-restart", "second listing from cookie 0 on the same descriptor delivered " + std::to_string(again.size()) + " entries, the directory has " + std::to_string(want.size()));
        } else if (S->faults_fired == faults_before) V("readdir", site + ":restart-failed", why3);
    }
}

// ---- process services (C15)
static void op_args_env(const Op& op) {
    bool env = op.name == "environ"; const std::vector<std::string>& vec = env ? X->plan->envp : X->plan->argv;
    uint32_t cp = galloc(4, (uint32_t)(1 + X->data.below(4))), sp = galloc(4, 1);
    st32(cp, 0xDEADBEEF); st32(sp, 0xDEADBEEF);
    uint32_t r = (uint32_t)wcall(op, env ? "environ_sizes_get" : "args_sizes_get", {cp, sp});
    size_t total = 0; for (auto& s : vec) total += s.size() + 1;
    std::string what = env ? "environ" : "args";
    if (r != 0) { V("args", what + "_sizes_get:failed", std::to_string(r)); return; }
    if (ld32(cp) != vec.size()) V("args", what + "_sizes_get:count", std::to_string(ld32(cp)) + " expected " + std::to_string(vec.size()));
    if (ld32(sp) != total) V("args", what + "_sizes_get:buf-size", std::to_string(ld32(sp)) + " expected " + std::to_string(total));
    uint32_t pp = galloc((uint32_t)vec.size() * 4 + 4, 1), bp = galloc((uint32_t)total + 8, 1);
    int place = (int)op.get("place");
    bool at_end = false;
    if (place == 1 && total > 0 && total < 60000) { bp = X->memsize - (uint32_t)total; at_end = true; }                       // last string's NUL is the last byte of memory
    if (place == 2 && !vec.empty() && vec.size() < 10000) pp = X->memsize - (uint32_t)vec.size() * 4;                      // last pointer slot ends the memory
    memset(X->mem + bp, 0x33, at_end ? total : total + 8);
    r = (uint32_t)wcall(op, env ? "environ_get" : "args_get", {pp, bp});
    if (r != 0) { V("args", what + "_get:failed", std::to_string(r)); return; }
    uint32_t exp = bp;
    for (size_t i = 0; i < vec.size(); i++) {
        uint32_t p = ld32(pp + (uint32_t)i * 4);
        if (p != exp) { V("args", what + "_get:pointer", "pointer " + std::to_string(i) + " is " + std::to_string(p) + " expected " + std::to_string(exp)); return; }
        if (memcmp(X->mem + p, vec[i].c_str(), vec[i].size() + 1) != 0) { V("args", what + "_get:string", "string " + std::to_string(i) + " of " + std::to_string(vec.size()) + " (length " + std::to_string(vec[i].size()) + ") differs"); return; }
        exp += (uint32_t)vec[i].size() + 1;
    }
    if (!at_end) for (uint32_t k = 0; k < 8; k++) if (X->mem[bp + total + k] != 0x33) { S->extra_guest_writes++; break; }
}
static void op_clock(const Op& op) {
    uint32_t id = (uint32_t)op.get("id"); uint32_t rp = galloc(8, (uint32_t)(1 + X->data.below(8)));
    uint64_t sent = 0xABABABABABABABABull; memcpy(X->mem + rp, &sent, 8);
    bool res = op.name == "clock_res_get";
    int64_t before = sim::now_ns();
    uint64_t fb = S->faults_fired;
    uint32_t r = res ? (uint32_t)wcall(op, "clock_res_get", {id, rp}) : (uint32_t)wcall(op, "clock_time_get", {id, (uint64_t)op.get("precision"), rp});
    int64_t after = sim::now_ns();
    if (S->faults_fired != fb) { int want = wasi_errno_of((int)op.fault_param); if (want >= 0 && (int)r != want) V("clock", op.name + ":injected-error-not-translated", "returned " + std::to_string(r) + " expected " + std::to_string(want)); return; }
    if (id >= 4) { if (r != 28) V("clock", op.name + ":unknown-clock-id-not-EINVAL", "id " + std::to_string(id) + " returned " + std::to_string(r)); return; }
    if (r != 0) { V("clock", op.name + ":failed", "id " + std::to_string(id) + " returned " + std::to_string(r)); return; }
    uint64_t v = ld64(rp);
    if (res) { if (v == 0 || v > 1000000000ull) V("clock", "clock_res_get:value", std::to_string(v)); return; }
    int64_t base = id == 0 ? X->plan->epoch_real : X->plan->epoch_mono;
    if ((int64_t)v < base + before || (int64_t)v > base + after) V("clock", "clock_time_get:nanoseconds:clock" + std::to_string(id), "stored " + std::to_string(v) + " but the clock read " + std::to_string(base + before) + ".." + std::to_string(base + after) + " ns");
    if (id == 1) { if (X->last_mono >= 0 && (int64_t)v < X->last_mono) V("clock", "clock_time_get:monotonic-went-back", std::to_string(v) + " < " + std::to_string(X->last_mono)); X->last_mono = (int64_t)v; }
}
static void op_random(const Op& op) {
    uint32_t len = (uint32_t)op.get("len"); uint32_t bp = galloc(len + 8, 1);
    for (uint32_t i = 0; i < len + 8; i++) X->mem[bp + i] = 0xC3;
    std::vector<uint8_t> elog; g_entropy_log = &elog;
    uint32_t r = (uint32_t)wcall(op, "random_get", {bp, len});
    g_entropy_log = nullptr;
    std::string cls = len <= 256 ? "<=256" : len <= 65536 ? "257..65536" : ">65536";
    if (r != 0) { V("random", "random_get:failed:len" + cls, "random_get(len=" + std::to_string(len) + ") returned " + std::to_string(r) + " (" + wasi_errno_name((int)r) + ")"); return; }
    if (elog.size() == len) { if (len && memcmp(X->mem + bp, elog.data(), len) != 0) V("random", "random_get:bytes-not-filled:len" + cls, "buffer does not hold the entropy the host supplied"); }
    else if (len >= 32) {
        // another entropy source was used: every window of 32 bytes must have been written (a run of 32 sentinel bytes is not random)
        size_t run = 0, worst = 0, at = 0; for (uint32_t i = 0; i < len; i++) { if (X->mem[bp + i] == 0xC3) { if (++run > worst) { worst = run; at = i + 1 - run; } } else run = 0; }
        if (worst >= 32) V("random", "random_get:buffer-not-filled:len" + cls, std::to_string(worst) + " consecutive bytes from offset " + std::to_string(at) + " of " + std::to_string(len) + " were never written");
    }
    for (uint32_t k = len; k < len + 8; k++) if (X->mem[bp + k] != 0xC3) { V("random", "random_get:wrote-past-length", "len " + std::to_string(len)); break; }
}
static void op_proc_exit(const Op& op) {
    wcall(op, "proc_exit", {(uint64_t)op.get("code")});
    V("exit", "proc_exit:returned", "proc_exit(" + std::to_string(op.get("code")) + ") returned to the caller");
}

// thread-spawn round: tasks call the export concurrently
struct SpawnRec { uint32_t arg; int32_t ret; int via = 0; };   // via: 0 the translated module, 1 in-process module B, 2 module C (no wasi_thread_start)
static int g_spawn_mix = 0;
static std::vector<SpawnRec>* g_spawns = nullptr;
static const Op* g_spawn_op = nullptr;
static std::vector<std::vector<uint32_t>> g_spawn_args;
static void* spawn_task(void* a) {
    size_t t = (size_t)(intptr_t)a;
    for (uint32_t arg : g_spawn_args[t]) {
        sim::yield(Y_OP, t);
        auto it = X->disp.find("thread_spawn"); unsigned long long av[2] = {arg, 0};
        int via = g_spawn_mix ? (int)((arg / 1) % 3) : 0;
        uint32_t r = via ? (uint32_t)wglue_fake_spawn(via, arg) : (uint32_t)it->second->fn(X->inst, av);
        SpawnRec sr; sr.arg = arg; sr.ret = (int32_t)r; sr.via = via;
        g_spawns->push_back(sr);
        log_event("thread_spawn", arg, r);
    }
    return nullptr;
}
static void op_spawn_round(const Op& op) {
    int nt = (int)op.get("tasks", 2), per = (int)op.get("per", 2);
    std::vector<SpawnRec> recs; g_spawns = &recs; g_spawn_op = &op; g_spawn_args.assign((size_t)nt, {});
    uint32_t base = (uint32_t)op.get("argbase", 1);
    for (int t = 0; t < nt; t++) for (int k = 0; k < per; k++) g_spawn_args[(size_t)t].push_back(base + (uint32_t)(t * per + k));
    uint32_t cnt0 = ld32(1024);
    g_spawn_mix = (int)op.get("mix", 0); int fake0 = wglue_fake_nstarts;
    for (uint32_t a = base; a < base + (uint32_t)(nt * per); a++) st32(2048 + 4 * a, 0);
    g_cur_op = &op; g_calls = nullptr;
    sim::sut_enter();
    for (int t = 0; t < nt; t++) sim::spawn(spawn_task, (void*)(intptr_t)t);
    sim::join_all();
    sim::sut_leave();
    g_cur_op = nullptr; g_spawns = nullptr;
    std::set<int32_t> ids; uint32_t okc = 0;
    for (auto& s : recs) {
        if (s.via == 2) { if (s.ret >= 0) V("thread", "thread-spawn:missing-export-not-negative:other-module", "returned " + std::to_string(s.ret) + " for an instance of a module that does not export wasi_thread_start (after spawns from modules that do)"); continue; }
        if (s.via == 1) {
            if (s.ret <= 0) { if (X->plan->tcfail == 0) V("thread", "thread-spawn:failed-without-fault:other-module", "returned " + std::to_string(s.ret) + " for a module that exports wasi_thread_start"); continue; }
            if (!ids.insert(s.ret).second) V("thread", "thread-spawn:duplicate-thread-id", "thread id " + std::to_string(s.ret) + " was returned by more than one spawn");
            int n = 0; bool child = false;
            for (int q = fake0; q < wglue_fake_nstarts; q++) if (wglue_fake_starts[q].arg == s.arg && wglue_fake_starts[q].tid == (uint32_t)s.ret) { n++; child = wglue_fake_starts[q].which == 1 && wglue_fake_starts[q].on_child; }
            if (n != 1) V("thread", "thread-spawn:other-module-start-count", "the spawning module's wasi_thread_start ran " + std::to_string(n) + " times for spawn(arg " + std::to_string(s.arg) + ") = " + std::to_string(s.ret));
            else if (!child) V("thread", "thread-spawn:other-module-start-not-on-child-instance", "");
            continue;
        }
        if (X->plan->nothread) { if (s.ret >= 0) V("thread", "thread-spawn:missing-export-not-negative", "returned " + std::to_string(s.ret) + " although the module does not export wasi_thread_start"); continue; }
        if (s.ret <= 0) { if (X->plan->tcfail == 0) V("thread", "thread-spawn:failed-without-fault", "returned " + std::to_string(s.ret)); else if (ld32(2048 + 4 * s.arg) != 0) V("thread", "thread-spawn:start-ran-for-failed-spawn", "arg " + std::to_string(s.arg)); continue; }
        okc++;
        if (!ids.insert(s.ret).second) V("thread", "thread-spawn:duplicate-thread-id", "thread id " + std::to_string(s.ret) + " was returned by more than one spawn");
        uint32_t slot = ld32(2048 + 4 * s.arg);
        if (slot != (uint32_t)s.ret) V("thread", "thread-spawn:start-not-run-with-returned-id", "spawn(arg " + std::to_string(s.arg) + ") returned " + std::to_string(s.ret) + " but wasi_thread_start recorded tid " + std::to_string(slot) + " in the shared memory");
    }
    if (!X->plan->nothread && ld32(1024) - cnt0 != okc) V("thread", "thread-spawn:start-count", "wasi_thread_start ran " + std::to_string(ld32(1024) - cnt0) + " times for " + std::to_string(okc) + " successful spawns");
}

// ---------------------------------------------------------------- parallel phase
// Threads started by thread-spawn enter the WASI host concurrently. Here 2-3 simulated tasks issue calls at the same time
// on DISJOINT files (par_rw) or DISJOINT names below one pre-opened directory (par_path), so every call's result is
// independent of the interleaving and the kernel (same call on the mirror tree, made atomically by the harness) stays
// the reference. Only calls that do not change the descriptor table are issued concurrently (the table itself makes
// no thread-safety promise); files are opened before and stay open after the phase.
static uint64_t raw_call(const std::string& abi, const std::string& name, std::initializer_list<uint64_t> args) {
    auto it = X->disp.find(abi + "_" + name);
    if (it == X->disp.end()) { fprintf(stderr, "simwasi: no export %s_%s\n", abi.c_str(), name.c_str()); _exit(96); }
    unsigned long long a[10] = {0}; int i = 0; for (uint64_t v : args) a[i++] = v;
    sim::sut_enter();
    uint64_t r = it->second->fn(X->inst, a);
    sim::sut_leave();
    return r & 0xFFFFFFFFull;
}
struct ParTask { int id; std::string abi; uint64_t seed; int nops; bool rw; int64_t fd; int64_t dirfd; std::string mdir; std::string prefix; };
static std::vector<ParTask> g_par;
static void par_errno(const ParTask& t, const std::string& call, uint32_t got, int host_errno, const std::string& ctx) {
    int want = wasi_errno_of(host_errno);
    if (want == -1) { if (got == 0) V("concurrent", call + ":success-instead-of-error", "task " + std::to_string(t.id) + " " + ctx); return; }
    if ((int)got != want) V("concurrent", call + ":" + wasi_errno_name(want) + "-expected-got-" + wasi_errno_name((int)got), "task " + std::to_string(t.id) + ": " + call + "(" + t.abi + ") returned " + std::to_string(got) + " while other tasks were inside the host; the same call on the mirror tree gives errno " + std::to_string(host_errno) + " " + ctx);
}
static void par_rw_ops(ParTask& t) {
    Rng r; r.seed(t.seed);
    MFd* e = entry(t.fd); if (!e || !e->live || e->mfd < 0) return;
    int mfd = e->mfd; uint32_t counter = 0;
    for (int k = 0; k < t.nops && !S->nviol; k++) {
        sim::yield(Y_OP, (uint64_t)t.id);
        uint32_t kind = r.below(6);
        int nseg = 1 + (int)r.below(3); std::vector<uint32_t> lens; uint32_t total = 0;
        for (int q = 0; q < nseg; q++) { uint32_t l = r.below(4) == 0 ? 0 : 1 + r.below(40); lens.push_back(l); total += l; }
        uint32_t buf = galloc(total + 8, 1), iov = galloc(8 * (uint32_t)nseg, 4), res = galloc(8, 8);
        uint32_t o = 0; for (int q = 0; q < nseg; q++) { st32(iov + 8 * (uint32_t)q, buf + o); st32(iov + 8 * (uint32_t)q + 4, lens[(size_t)q]); o += lens[(size_t)q]; }
        st32(res, 0xDEADBEEF);
        struct stat stt; __real_fstat(mfd, &stt); uint64_t size = (uint64_t)stt.st_size;
        uint64_t off = r.below(3) == 0 ? size : r.below((uint32_t)size + 8);
        std::string what;
        if (kind <= 1) {            // fd_write / fd_pwrite
            std::vector<uint8_t> data(total); for (uint32_t i = 0; i < total; i++) data[i] = (uint8_t)('A' + t.id * 8 + (counter++ % 7));
            if (total) memcpy(X->mem + buf, data.data(), total);
            bool pos = kind == 1; what = pos ? "fd_pwrite" : "fd_write";
            uint32_t rr = pos ? (uint32_t)raw_call(t.abi, "fd_pwrite", {(uint64_t)t.fd, iov, (uint64_t)nseg, off, res}) : (uint32_t)raw_call(t.abi, "fd_write", {(uint64_t)t.fd, iov, (uint64_t)nseg, res});
            ssize_t mr = pos ? ::pwrite(mfd, data.data(), total, (off_t)off) : ::write(mfd, data.data(), total); int merr = mr < 0 ? errno : 0;
            par_errno(t, what, rr, merr, "");
            if (rr == 0 && mr >= 0 && ld32(res) != (uint32_t)mr) V("concurrent", what + ":count", "task " + std::to_string(t.id) + ": " + what + " of " + std::to_string(total) + " bytes stored count " + std::to_string(ld32(res)) + ", POSIX reference " + std::to_string((long)mr));
        } else if (kind <= 3) {     // fd_read / fd_pread
            bool pos = kind == 3; what = pos ? "fd_pread" : "fd_read";
            memset(X->mem + buf, 0x5A, total + 8);
            uint32_t rr = pos ? (uint32_t)raw_call(t.abi, "fd_pread", {(uint64_t)t.fd, iov, (uint64_t)nseg, off, res}) : (uint32_t)raw_call(t.abi, "fd_read", {(uint64_t)t.fd, iov, (uint64_t)nseg, res});
            std::vector<uint8_t> ref(total + 1);
            ssize_t mr = pos ? ::pread(mfd, ref.data(), total, (off_t)off) : ::read(mfd, ref.data(), total); int merr = mr < 0 ? errno : 0;
            par_errno(t, what, rr, merr, "");
            if (rr == 0 && mr >= 0) {
                if (ld32(res) != (uint32_t)mr) V("concurrent", what + ":count", "task " + std::to_string(t.id) + ": stored count " + std::to_string(ld32(res)) + ", POSIX reference " + std::to_string((long)mr));
                else if (mr > 0 && memcmp(X->mem + buf, ref.data(), (size_t)mr) != 0) V("concurrent", what + ":data", "task " + std::to_string(t.id) + ": bytes read differ from the POSIX reference");
                for (uint32_t i = (uint32_t)mr; i < total + 8; i++) if (X->mem[buf + i] != 0x5A) { V("concurrent", what + ":wrote-past-count", "task " + std::to_string(t.id)); break; }
            }
        } else if (kind == 4) {     // fd_seek to an absolute offset
            what = "fd_seek"; uint32_t wh = t.abi == "p1" ? 0 : 2;
            uint32_t rr = (uint32_t)raw_call(t.abi, "fd_seek", {(uint64_t)t.fd, off, wh, res});
            off_t mr = __real_lseek(mfd, (off_t)off, SEEK_SET); int merr = mr == (off_t)-1 ? errno : 0;
            par_errno(t, what, rr, merr, "");
            if (rr == 0 && mr >= 0 && ld64(res) != (uint64_t)mr) V("concurrent", "fd_seek:offset", "task " + std::to_string(t.id));
        } else {                    // fd_tell
            what = "fd_tell";
            uint32_t rr = (uint32_t)raw_call(t.abi, "fd_tell", {(uint64_t)t.fd, res});
            off_t mr = __real_lseek(mfd, 0, SEEK_CUR);
            if (rr != 0) V("concurrent", "fd_tell:failed", "task " + std::to_string(t.id) + " returned " + std::to_string(rr));
            else if (ld64(res) != (uint64_t)mr) V("concurrent", "fd_tell:offset", "task " + std::to_string(t.id) + ": " + std::to_string(ld64(res)) + ", POSIX reference " + std::to_string((long long)mr));
        }
        log_event(what.c_str(), (uint64_t)t.id, (uint64_t)k);
        S->par_calls++;
    }
}
static void par_path_ops(ParTask& t) {
    Rng r; r.seed(t.seed);
    std::vector<std::string> names; for (int i = 0; i < 5; i++) names.push_back(t.prefix + std::string(1, (char)('a' + i)) + (i == 3 ? ".long-name-with-more-characters-than-the-others" : ""));
    for (int k = 0; k < t.nops && !S->nviol; k++) {
        sim::yield(Y_OP, (uint64_t)t.id);
        uint32_t kind = r.below(8);
        const std::string& a = names[r.below(5)]; const std::string& b = names[r.below(5)];
        std::string ma = t.mdir + "/" + a, mb = t.mdir + "/" + b;
        uint32_t pa = gput(a), pb = gput(b); uint64_t D = (uint64_t)t.dirfd;
        std::string what; uint32_t rr = 0; int mr = 0, merr = 0;
        if (kind == 0) { what = "path_create_directory"; rr = (uint32_t)raw_call(t.abi, what, {D, pa, a.size()}); mr = __real_mkdir(ma.c_str(), 0777); merr = mr ? errno : 0; }
        else if (kind == 1) { what = "path_remove_directory"; rr = (uint32_t)raw_call(t.abi, what, {D, pa, a.size()}); mr = __real_rmdir(ma.c_str()); merr = mr ? errno : 0; }
        else if (kind == 2) { what = "path_unlink_file"; rr = (uint32_t)raw_call(t.abi, what, {D, pa, a.size()}); mr = __real_unlink(ma.c_str()); merr = mr ? errno : 0; }
        else if (kind <= 4) { what = "path_rename"; rr = (uint32_t)raw_call(t.abi, what, {D, pa, a.size(), D, pb, b.size()}); mr = __real_rename(ma.c_str(), mb.c_str()); merr = mr ? errno : 0; }
        else if (kind == 5) { what = "path_symlink"; std::string tgt = "target-of-" + a; uint32_t pt = gput(tgt); rr = (uint32_t)raw_call(t.abi, what, {pt, tgt.size(), D, pb, b.size()}); mr = __real_symlink(tgt.c_str(), mb.c_str()); merr = mr ? errno : 0; }
        else if (kind == 6) {
            what = "path_readlink"; uint32_t bp = galloc(128, 1), res = galloc(4, 4); memset(X->mem + bp, 0x5A, 128); st32(res, 0);
            rr = (uint32_t)raw_call(t.abi, what, {D, pa, a.size(), bp, 100, res});
            char lb[128]; ssize_t n = __real_readlink(ma.c_str(), lb, 100); merr = n < 0 ? errno : 0;
            if (rr == 0 && n >= 0 && (ld32(res) != (uint32_t)n || memcmp(X->mem + bp, lb, (size_t)n) != 0)) V("concurrent", "path_readlink:target", "task " + std::to_string(t.id) + ": link " + a);
        } else {
            what = "path_filestat_get"; uint32_t bp = galloc(64, 8);
            rr = (uint32_t)raw_call(t.abi, what, {D, 1, pa, a.size(), bp});      // lookup flag: follow symlinks (stat), as in the sequential workload
            struct stat st; mr = __real_stat(ma.c_str(), &st); merr = mr ? errno : 0;
        }
        par_errno(t, what, rr, merr, "name " + a + (what == "path_rename" || what == "path_symlink" ? " -> " + b : ""));
        log_event(what.c_str(), (uint64_t)t.id, (uint64_t)k);
        S->par_calls++;
    }
}
static void* par_task_main(void* a) { ParTask& t = g_par[(size_t)(intptr_t)a]; if (t.rw) par_rw_ops(t); else par_path_ops(t); return nullptr; }
static void op_par(const Op& op) {
    bool rw = op.name == "par_rw"; int nt = (int)op.get("tasks", 2);
    // first pre-opened directory
    int64_t dirfd = -1; for (size_t k = 3; k < X->tab.size(); k++) if (X->tab[k].live && X->tab[k].preopen) { dirfd = (int64_t)k; break; }
    if (dirfd < 0) return;
    MFd dir = *entry(dirfd);
    g_par.clear();
    for (int t = 0; t < nt; t++) {
        ParTask pt; pt.id = t; pt.abi = ((op.get("abimask") >> t) & 1) ? "u" : "p1"; pt.seed = (uint64_t)op.get("pseed") * 31 + (uint64_t)t; pt.nops = (int)op.get("n", 6); pt.rw = rw; pt.fd = -1; pt.dirfd = dirfd; pt.mdir = dir.mpath;
        pt.prefix = "par" + std::to_string(op.get("gen")) + "t" + std::to_string(t) + "_";
        if (rw) {
            // sequential set-up through the ordinary executor: create and open the task's own file
            Op o; o.name = "path_open"; o.abi = pt.abi; o.path = pt.prefix + "file"; o.n["dirfd"] = dirfd; o.n["oflags"] = 1; o.n["rights"] = (int64_t)(R_READ | R_WRITE | R_SEEK | R_TELL);
            size_t before = X->tab.size();
            X->calls.clear(); g_callcount.clear();
            op_path_open(o);
            if (S->nviol) return;
            for (size_t k = 3; k < X->tab.size(); k++) if (X->tab[k].live && X->tab[k].regpath == dir.ppath + "/" + o.path) pt.fd = (int64_t)k;
            (void)before;
            if (pt.fd < 0) return;
        } else {
            // two files per task exist beforehand in both trees
            for (const char* n : {"a", "c"}) { for (const std::string& base : {dir.ppath, dir.mpath}) { int fd = __real_open((base + "/" + pt.prefix + n).c_str(), O_WRONLY | O_CREAT, 0644); if (fd >= 0) { if (::write(fd, "x", 1)) {} __real_close(fd); } } }
        }
        g_par.push_back(pt);
    }
    g_cur_op = nullptr; g_calls = nullptr;
    sim::sut_enter();
    for (int t = 0; t < nt; t++) sim::spawn(par_task_main, (void*)(intptr_t)t);
    sim::join_all();
    sim::sut_leave();
    if (S->nviol) return;
    if (rw) for (auto& t : g_par) check_position(op, t.fd, "concurrent-phase");
    compare_trees(std::string("after the concurrent ") + (rw ? "read/write" : "path") + " phase");
}

static void exec_op(const Op& op) {
    begin_op(op);
    const std::string& n = op.name;
    if (n == "path_open") op_path_open(op);
    else if (n == "fd_write" || n == "fd_pwrite" || n == "fd_read" || n == "fd_pread") op_rw(op);
    else if (n == "fd_seek" || n == "fd_tell") op_seek_tell(op);
    else if (n == "fd_filestat_get") op_fd_filestat(op);
    else if (n == "fd_close") op_fd_close(op);
    else if (n == "badfd_sweep") op_badfd_sweep(op);
    else if (n == "prestat") op_prestat(op);
    else if (n.compare(0, 5, "path_") == 0) op_path_generic(op);
    else if (n == "readdir") op_readdir(op);
    else if (n == "args" || n == "environ") op_args_env(op);
    else if (n == "clock_time_get" || n == "clock_res_get") op_clock(op);
    else if (n == "random_get") op_random(op);
    else if (n == "proc_exit") op_proc_exit(op);
    else if (n == "spawn_round") op_spawn_round(op);
    else if (n == "par_rw" || n == "par_path") op_par(op);
    else { fprintf(stderr, "simwasi: unknown op %s\n", n.c_str()); _exit(96); }
    check_canaries();
    S->ops_done++;
}
