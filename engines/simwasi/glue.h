#ifndef SIMWASI_GLUE_H
#define SIMWASI_GLUE_H
#ifdef __cplusplus
extern "C" {
#endif
typedef struct SimDispatch { const char* name; int nargs; unsigned long long (*fn)(void* inst, const unsigned long long* a); } SimDispatch;
extern const SimDispatch sim_dispatch[];
void* wglue_instantiate(void);
unsigned char* wglue_mem(void* inst);
unsigned wglue_mem_size(void* inst);
int wglue_wasi_init(int argc, char** argv, char** envp);
int wglue_preopen(const char* path, unsigned* fd);
int wglue_native_fd(unsigned wasiFD, int* fd, int* has_dir, const char** path);
int wglue_path_max(void);
int wglue_nothread(void);
/* additional in-process modules for thread-spawn: 1 = module B (own wasi_thread_start), 2 = module C (no such export) */
#define WGLUE_FAKE_MAX 256
typedef struct WglueFakeStart { unsigned tid, arg; int which; int on_child; } WglueFakeStart;
extern WglueFakeStart wglue_fake_starts[WGLUE_FAKE_MAX];
extern int wglue_fake_nstarts;
int wglue_fake_spawn(int which, unsigned arg);
#ifdef __cplusplus
}
#endif
#endif
