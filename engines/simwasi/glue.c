/* Glue between the C++ harness and the generated 'wasihost' module + wasi/wasi.c. Compiled per module variant with
 * -DMOD=<name> -DMOD_HEADER="<name>.h" -DMOD_DISPATCH="<name>_dispatch.inc". */
#include <stdlib.h>
#include <string.h>
#include MOD_HEADER
#include "wasi.h"
#include "glue.h"

#define CAT3_(a, b, c) a##b##c
#define CAT3(a, b, c) CAT3_(a, b, c)
#define INST CAT3(MOD, Instance, )

#include MOD_DISPATCH

static void* g_instance;

void* wglue_instantiate(void) {
    INST* i = (INST*)calloc(1, sizeof(INST));
    CAT3(MOD, Instantiate, )(i, NULL);
    g_instance = i;
    return i;
}
wasmMemory* wasiMemory(void* instance) { return CAT3(MOD, _, memory)((INST*)instance); }
unsigned char* wglue_mem(void* inst) { return wasiMemory(inst)->data; }
unsigned wglue_mem_size(void* inst) { return wasiMemory(inst)->pages * 65536u; }
int wglue_wasi_init(int argc, char** argv, char** envp) { return wasiInit(argc, argv, envp) ? 1 : 0; }
int wglue_preopen(const char* path, unsigned* fd) { U32 f = 0; int ok = wasiFileDescriptorAdd(-1, (char*)path, &f) ? 1 : 0; *fd = f; return ok; }
int wglue_native_fd(unsigned wasiFD, int* fd, int* has_dir, const char** path) {
    WasiFileDescriptor d;
    if (!wasiFileDescriptorGet(wasiFD, &d)) return 0;
    *fd = d.fd; *has_dir = d.dir != NULL; *path = d.path;
    return 1;
}
int wglue_path_max(void) { return PATH_MAX; }
int wglue_nothread(void) {
#ifdef NOTHREAD
    return 1;
#else
    return 0;
#endif
}

/* ---- two more "modules" in the shape the translator generates, living in the same process: module B exports a helper
 * and its own wasi_thread_start, module C exports no wasi_thread_start. thread-spawn receives the spawning instance and
 * has to use THAT module's export table. */
typedef struct FakeInstance { wasmModuleInstance common; int which; int is_child; struct FakeInstance* parent; } FakeInstance;
WglueFakeStart wglue_fake_starts[WGLUE_FAKE_MAX];
int wglue_fake_nstarts;
static void fake_helper(void* inst) { (void)inst; }
static void fakeB_thread_start(void* inst, U32 tid, U32 arg) {
    FakeInstance* i = (FakeInstance*)inst;
    if (wglue_fake_nstarts < WGLUE_FAKE_MAX) {
        WglueFakeStart* r = &wglue_fake_starts[wglue_fake_nstarts++];
        r->tid = tid; r->arg = arg; r->which = i ? i->which : -1; r->on_child = i && i->is_child && i->parent && i->parent->which == i->which;
    }
}
static wasmFuncExport fakeB_exports[] = { { (wasmFunc)fake_helper, "helper" }, { (wasmFunc)fakeB_thread_start, "wasi_thread_start" }, { NULL, NULL } };
static wasmFuncExport fakeC_exports[] = { { (wasmFunc)fake_helper, "helper" }, { (wasmFunc)fake_helper, "wasi_thread_star" }, { NULL, NULL } };
static wasmModuleInstance* fake_new_child(wasmModuleInstance* self) {
    FakeInstance* c = (FakeInstance*)calloc(1, sizeof(FakeInstance));
    *c = *(FakeInstance*)self; c->is_child = 1; c->parent = (FakeInstance*)self;
    return &c->common;
}
static FakeInstance fakeB = { { fakeB_exports, NULL, fake_new_child }, 1, 0, NULL };
static FakeInstance fakeC = { { fakeC_exports, NULL, fake_new_child }, 2, 0, NULL };
int wglue_fake_spawn(int which, unsigned arg) { return (int)wasi__threadX2Dspawn((void*)(which == 1 ? &fakeB.common : &fakeC.common), arg); }
