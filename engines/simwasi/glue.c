/* Glue between the C++ harness and the generated 'wasihost' module + wasi/wasi.c. Compiled per module variant with
 * -DMOD=<name> -DMOD_HEADER="<name>.h" -DMOD_DISPATCH="<name>_dispatch.inc". */
#include <stdlib.h>
#include <string.h>
#include MOD_HEADER
#include "wasi.h"
#include "glue.h"

#define CAT3_(a, b, c) a##b##c
#define CAT3(a, b, c) CAT3_(a, b, c)
#define INST CAT3(MOD, Instance, )

#include MOD_DISPATCH

static void* g_instance;

void* wglue_instantiate(void) {
    INST* i = (INST*)calloc(1, sizeof(INST));
    CAT3(MOD, Instantiate, )(i, NULL);
    g_instance = i;
    return i;
}
wasmMemory* wasiMemory(void* instance) { return CAT3(MOD, _, memory)((INST*)instance); }
unsigned char* wglue_mem(void* inst) { return wasiMemory(inst)->data; }
unsigned wglue_mem_size(void* inst) { return wasiMemory(inst)->pages * 65536u; }
int wglue_wasi_init(int argc, char** argv, char** envp) { return wasiInit(argc, argv, envp) ? 1 : 0; }
int wglue_preopen(const char* path, unsigned* fd) { U32 f = 0; int ok = wasiFileDescriptorAdd(-1, (char*)path, &f) ? 1 : 0; *fd = f; return ok; }
int wglue_native_fd(unsigned wasiFD, int* fd, int* has_dir, const char** path) {
    WasiFileDescriptor d;
    if (!wasiFileDescriptorGet(wasiFD, &d)) return 0;
    *fd = d.fd; *has_dir = d.dir != NULL; *path = d.path;
    return 1;
}
int wglue_path_max(void) { return PATH_MAX; }
int wglue_nothread(void) {
#ifdef NOTHREAD
    return 1;
#else
    return 0;
#endif
}
