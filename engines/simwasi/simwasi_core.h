// simwasi core: plan/ops, shared report, libc seam (fault points + call log), guest memory helpers.
#pragma once
#include "../../simcore/simcore.h"
#include "glue.h"
#include <string>
#include <vector>
#include <map>
#include <set>
#include <sstream>
#include <algorithm>
#include <stdio.h>
#include <stdlib.h>
#include <string.h>
#include <unistd.h>
#include <fcntl.h>
#include <errno.h>
#include <signal.h>
#include <stdarg.h>
#include <dirent.h>
#include <limits.h>
#include <time.h>
#include <sys/mman.h>
#include <sys/stat.h>
#include <sys/uio.h>
#include <sys/wait.h>
#include <inttypes.h>

using namespace sim;

// ---------------------------------------------------------------- plan
struct Op {
    std::string name;                 // WASI call name without ABI prefix, or harness op
    std::string abi = "p1";           // p1 | u
    std::map<std::string, int64_t> n; // numeric arguments
    std::string path, path2;          // guest paths (raw bytes)
    std::vector<uint32_t> iov;        // segment lengths
    std::string fault; int fault_nth = 0; int64_t fault_param = 0;   // fault attached to this op
    int task = 0;
    int64_t get(const char* k, int64_t d = 0) const { auto it = n.find(k); return it == n.end() ? d : it->second; }
};
struct Plan {
    std::string prop; uint64_t seed = 0;
    int policy = 0; double switch_prob = 0.2; uint32_t mem_mean = 0; int64_t tick_ns = 1000; int64_t epoch_real = 1700000000ll * 1000000000ll, epoch_mono = 5000;
    int npre = 1; bool trailing_slash = false; int deep = 0;     // preopens; deep = extra path length of the preopen directory
    std::vector<std::string> argv, envp;
    std::vector<std::string> files;    // initial tree: "d0/name:size" or "d0/dir/"
    bool nothread = false;             // module variant without wasi_thread_start
    int ntasks = 1;
    std::vector<Op> ops;
    std::vector<uint32_t> sched;
    double tcfail = 0;
};

static std::string hexenc(const std::string& s) { static const char* h = "0123456789abcdef"; std::string o; for (unsigned char c : s) { o += h[c >> 4]; o += h[c & 15]; } return o.empty() ? "-" : o; }
static std::string hexdec(const std::string& s) { if (s == "-") return ""; std::string o; for (size_t i = 0; i + 1 < s.size(); i += 2) o += (char)strtol(s.substr(i, 2).c_str(), 0, 16); return o; }

static std::string plan_to_text(const Plan& p, const std::vector<uint32_t>* trace) {
    std::ostringstream o;
    o << "engine E3\nproperty " << p.prop << "\nseed " << p.seed << "\n";
    o << "config policy=" << p.policy << " switch_prob=" << p.switch_prob << " mem_mean=" << p.mem_mean << " tick_ns=" << p.tick_ns << " epoch_real=" << p.epoch_real
      << " epoch_mono=" << p.epoch_mono << " npre=" << p.npre << " trailing_slash=" << (p.trailing_slash ? 1 : 0) << " deep=" << p.deep << " nothread=" << (p.nothread ? 1 : 0)
      << " ntasks=" << p.ntasks << " tcfail=" << p.tcfail << "\n";
    for (auto& a : p.argv) o << "argv " << hexenc(a) << "\n";
    for (auto& a : p.envp) o << "envp " << hexenc(a) << "\n";
    for (auto& f : p.files) o << "file " << f << "\n";
    for (auto& op : p.ops) {
        o << "op " << op.name << " abi=" << op.abi << " task=" << op.task;
        for (auto& kv : op.n) o << " " << kv.first << "=" << kv.second;
        if (!op.path.empty() || op.n.count("haspath")) o << " path=" << hexenc(op.path);
        if (!op.path2.empty()) o << " path2=" << hexenc(op.path2);
        if (!op.iov.empty()) { o << " iov="; for (size_t i = 0; i < op.iov.size(); i++) o << (i ? "," : "") << op.iov[i]; }
        if (!op.fault.empty()) o << " fault=" << op.fault << ":" << op.fault_nth << ":" << op.fault_param;
        o << "\n";
    }
    const std::vector<uint32_t>& s = trace ? *trace : p.sched;
    if (!s.empty()) { o << "sched"; for (uint32_t v : s) o << " " << v; o << "\n"; }
    o << "end\n";
    return o.str();
}
static bool plan_from_text(const std::string& text, Plan& p) {
    std::istringstream in(text); std::string line;
    while (std::getline(in, line)) {
        if (!line.empty() && line[0] == '#') continue;
        std::istringstream ls(line); std::string w; if (!(ls >> w)) continue;
        if (w == "property") ls >> p.prop; else if (w == "seed") ls >> p.seed;
        else if (w == "config") { std::string kv; while (ls >> kv) { size_t e = kv.find('='); if (e == std::string::npos) continue; std::string k = kv.substr(0, e), v = kv.substr(e + 1);
            if (k == "policy") p.policy = atoi(v.c_str()); else if (k == "switch_prob") p.switch_prob = atof(v.c_str()); else if (k == "mem_mean") p.mem_mean = (uint32_t)strtoul(v.c_str(), 0, 10);
            else if (k == "tick_ns") p.tick_ns = atoll(v.c_str()); else if (k == "epoch_real") p.epoch_real = atoll(v.c_str()); else if (k == "epoch_mono") p.epoch_mono = atoll(v.c_str());
            else if (k == "npre") p.npre = atoi(v.c_str()); else if (k == "trailing_slash") p.trailing_slash = atoi(v.c_str()) != 0; else if (k == "deep") p.deep = atoi(v.c_str());
            else if (k == "nothread") p.nothread = atoi(v.c_str()) != 0; else if (k == "ntasks") p.ntasks = atoi(v.c_str()); else if (k == "tcfail") p.tcfail = atof(v.c_str()); } }
        else if (w == "argv") { std::string h; ls >> h; p.argv.push_back(hexdec(h)); }
        else if (w == "envp") { std::string h; ls >> h; p.envp.push_back(hexdec(h)); }
        else if (w == "file") { std::string f; ls >> f; p.files.push_back(f); }
        else if (w == "op") {
            Op op; ls >> op.name; std::string kv;
            while (ls >> kv) { size_t e = kv.find('='); if (e == std::string::npos) continue; std::string k = kv.substr(0, e), v = kv.substr(e + 1);
                if (k == "abi") op.abi = v; else if (k == "task") op.task = atoi(v.c_str()); else if (k == "path") { op.path = hexdec(v); op.n["haspath"] = 1; } else if (k == "path2") op.path2 = hexdec(v);
                else if (k == "iov") { std::istringstream is(v); std::string t; while (std::getline(is, t, ',')) op.iov.push_back((uint32_t)strtoul(t.c_str(), 0, 10)); }
                else if (k == "fault") { size_t c1 = v.find(':'), c2 = v.find(':', c1 + 1); op.fault = v.substr(0, c1); op.fault_nth = atoi(v.substr(c1 + 1, c2 - c1 - 1).c_str()); op.fault_param = atoll(v.substr(c2 + 1).c_str()); }
                else op.n[k] = atoll(v.c_str()); }
            p.ops.push_back(op);
        } else if (w == "sched") { uint32_t v; while (ls >> v) p.sched.push_back(v); }
    }
    return !p.prop.empty();
}

// ---------------------------------------------------------------- shared child -> parent report
struct Shared {
    int finished; int exit_code; int via_exit; int exit_op;
    Stats st;
    uint32_t nviol; char viol[10][200]; char detail[1500];
    uint32_t ntrace; uint32_t trace[1 << 14];
    uint64_t ops_done, ops_ok, ops_err, faults_fired, host_calls, extra_guest_writes, tree_compares, par_calls;
    uint64_t fault_kind[F_KIND_COUNT];
    char fatal[400];
    int cur_op;
};
static Shared* S = nullptr;
static void add_viol(const std::string& sig, const std::string& detail) {
    if (!S) return;
    for (uint32_t i = 0; i < S->nviol; i++) if (sig == S->viol[i]) return;
    if (S->nviol >= 10) return;
    snprintf(S->viol[S->nviol], sizeof S->viol[0], "%s", sig.c_str());
    if (S->nviol == 0) snprintf(S->detail, sizeof S->detail, "%s", detail.c_str());
    S->nviol++;
}

// ---------------------------------------------------------------- libc seam
struct HostCall { std::string call; std::string path; int fd; long ret; };
static std::vector<HostCall>* g_calls = nullptr;     // calls made by the SUT inside the current op
static const Op* g_cur_op = nullptr;
static std::map<std::string, int> g_callcount;      // per op
static bool g_dtype_unknown = false;
static uint64_t g_entropy_state = 1;
static std::vector<uint8_t>* g_entropy_log = nullptr;

// every intercepted libc call made by the SUT is a scheduling point (the moment between marshalling arguments and the host call)
static inline bool sut() { bool in = sim::in_sut() && sim::active(); if (in) sim::yield(Y_IO, 0); return in; }
static void note(const char* call, const char* path, int fd, long ret) { if (g_calls) g_calls->push_back(HostCall{call, path ? path : "", fd, ret}); if (S) S->host_calls++; }
// returns fault errno/param if the op's attached fault targets this call instance
static bool fault_here(const char* call, int64_t* param) {
    if (!g_cur_op || g_cur_op->fault.empty()) return false;
    int nth = ++g_callcount[call];
    // fault names: short_write short_read eintr_write eintr_read eio_write eio_read enospc_write lseek_fail open_emfile opendir_emfile readdir_eio
    const std::string& f = g_cur_op->fault;
    bool match = false;
    if (!strcmp(call, "writev")) match = f == "short_write" || f == "eintr_write" || f == "eio_write" || f == "enospc_write";
    else if (!strcmp(call, "readv")) match = f == "short_read" || f == "eintr_read" || f == "eio_read";
    else if (!strcmp(call, "lseek")) match = f == "lseek_fail";
    else if (!strcmp(call, "open")) match = f == "open_emfile";
    else if (!strcmp(call, "opendir")) match = f == "opendir_emfile";
    else if (!strcmp(call, "readdir")) match = f == "readdir_eio";
    else if (!strcmp(call, "clock_gettime")) match = f == "clock_fail";
    else if (!strcmp(call, "strndup")) match = f == "strndup_fail";
    else if (!strcmp(call, "realloc")) match = f == "realloc_fail";
    else if (!strcmp(call, "malloc")) match = f == "malloc_fail";
    else if (!strcmp(call, "close") || !strcmp(call, "closedir")) match = f == "close_fail";
    if (!match || nth != g_cur_op->fault_nth) return false;
    *param = g_cur_op->fault_param;
    if (S) S->faults_fired++;
    return true;
}

extern "C" {
void __real_exit(int) __attribute__((noreturn));
int __real_open(const char*, int, ...);
int __real_close(int);
ssize_t __real_readv(int, const struct iovec*, int);
ssize_t __real_writev(int, const struct iovec*, int);
off_t __real_lseek(int, off_t, int);
DIR* __real_opendir(const char*);
struct dirent* __real_readdir(DIR*);
int __real_closedir(DIR*);
int __real_mkdir(const char*, mode_t);
int __real_rmdir(const char*);
int __real_unlink(const char*);
int __real_rename(const char*, const char*);
int __real_symlink(const char*, const char*);
ssize_t __real_readlink(const char*, char*, size_t);
int __real_stat(const char*, struct stat*);
int __real_lstat(const char*, struct stat*);
int __real_fstat(int, struct stat*);
int __real_getentropy(void*, size_t);
int __real_fsync(int);
int __real_fdatasync(int);

static void child_finish(int rc);
void __wrap_exit(int code) { if (sut() && S) { S->via_exit = 1; S->exit_op = S->cur_op; child_finish(code); } __real_exit(code); }
int __wrap_open(const char* p, int fl, ...) {
    mode_t m = 0; if (fl & (O_CREAT | O_TMPFILE)) { va_list ap; va_start(ap, fl); m = (mode_t)va_arg(ap, int); va_end(ap); }
    if (!sut()) return __real_open(p, fl, m);
    int64_t prm; if (fault_here("open", &prm)) { S->fault_kind[F_EMFILE]++; note("open", p, -1, -EMFILE); errno = EMFILE; return -1; }
    int r = __real_open(p, fl, m); note("open", p, -1, r); return r;
}
int __wrap_close(int fd) {
    if (!sut()) return __real_close(fd);
    // injected failure: the descriptor stays open (as after an EINTR that hit before anything was released)
    int64_t prm; if (fault_here("close", &prm)) { S->fault_kind[F_EINTR]++; note("close", nullptr, fd, -EINTR); errno = (int)prm ? (int)prm : EINTR; return -1; }
    int r = __real_close(fd); note("close", nullptr, fd, r); return r;
}
// Build without <sys/uio.h> (--build-tag nouio): wasi.c brings its own readv/writev, loops over read()/write(). Faults are then
// injected one level lower, at one segment's read()/write(), so that the emulation's own error handling is what gets exercised.
static bool g_nouio = false;
static bool seg_fault_here(const char* call) {
    if (!g_nouio || !g_cur_op || g_cur_op->fault.empty()) return false;
    const std::string& f = g_cur_op->fault; bool rd = !strcmp(call, "read");
    bool match = rd ? (f == "short_read" || f == "eintr_read" || f == "eio_read") : (f == "short_write" || f == "eintr_write" || f == "eio_write" || f == "enospc_write");
    if (!match) return false;
    size_t nseg = g_cur_op->iov.empty() ? 1 : g_cur_op->iov.size();
    int target = 1 + (int)(((size_t)(g_cur_op->iov.empty() ? 0 : g_cur_op->iov[0]) + nseg * 7 + (size_t)g_cur_op->get("off")) % nseg);
    if (++g_callcount[call] != target) return false;
    if (S) S->faults_fired++;
    return true;
}
// the copy of a descriptor's path cannot be allocated (the only allocation on the path_open path)
extern "C" char* __real_strndup(const char*, size_t);
extern "C" char* __wrap_strndup(const char* s0, size_t n) {
    int64_t prm;
    if (sut() && fault_here("strndup", &prm)) { if (S) S->fault_kind[F_ALLOC_FAIL]++; errno = ENOMEM; return nullptr; }
    return __real_strndup(s0, n);
}
// the descriptor table cannot grow
extern "C" void* __real_realloc(void*, size_t);
extern "C" void* __wrap_realloc(void* p0, size_t n) {
    int64_t prm;
    if (sim::in_sut() && sim::active() && g_cur_op && g_cur_op->fault == "realloc_fail" && sut() && fault_here("realloc", &prm)) { if (S) S->fault_kind[F_ALLOC_FAIL]++; errno = ENOMEM; return nullptr; }
    return __real_realloc(p0, n);
}
extern "C" void* __real_malloc(size_t);
extern "C" void* __wrap_malloc(size_t n) {
    int64_t prm;
    if (sim::in_sut() && sim::active() && g_cur_op && g_cur_op->fault == "malloc_fail" && sut() && fault_here("malloc", &prm)) { if (S) S->fault_kind[F_ALLOC_FAIL]++; errno = ENOMEM; return nullptr; }
    return __real_malloc(n);
}
extern "C" ssize_t __real_read(int, void*, size_t);
extern "C" ssize_t __real_write(int, const void*, size_t);
extern "C" ssize_t __wrap_read(int fd, void* buf, size_t n) {
    if (!sut() || !seg_fault_here("read")) return __real_read(fd, buf, n);
    const std::string& f = g_cur_op->fault;
    if (f == "short_read") { S->fault_kind[F_SHORT_READ]++; return __real_read(fd, buf, n > 1 ? n / 2 : n); }
    int e = f == "eintr_read" ? EINTR : EIO; S->fault_kind[e == EINTR ? F_EINTR : F_EIO]++; errno = e; return -1;
}
extern "C" ssize_t __wrap_write(int fd, const void* buf, size_t n) {
    if (!sut() || !seg_fault_here("write")) return __real_write(fd, buf, n);
    const std::string& f = g_cur_op->fault;
    if (f == "short_write") { S->fault_kind[F_SHORT_WRITE]++; return __real_write(fd, buf, n > 1 ? n / 2 : n); }
    int e = f == "eintr_write" ? EINTR : f == "eio_write" ? EIO : ENOSPC; S->fault_kind[e == EINTR ? F_EINTR : e == EIO ? F_EIO : F_ENOSPC]++; errno = e; return -1;
}
static ssize_t cut_iov(ssize_t (*f)(int, const struct iovec*, int), int fd, const struct iovec* iov, int cnt, size_t k) {
    std::vector<struct iovec> v; size_t left = k;
    for (int i = 0; i < cnt && left > 0; i++) { struct iovec e = iov[i]; if (e.iov_len > left) e.iov_len = left; left -= e.iov_len; v.push_back(e); }
    if (v.empty()) { struct iovec e; e.iov_base = (void*)""; e.iov_len = 0; v.push_back(e); }
    return f(fd, v.data(), (int)v.size());
}
ssize_t __wrap_writev(int fd, const struct iovec* iov, int cnt) {
    if (!sut()) return __real_writev(fd, iov, cnt);
    int64_t prm;
    if (!g_nouio && fault_here("writev", &prm)) {
        const std::string& f = g_cur_op->fault;
        if (f == "short_write") { S->fault_kind[F_SHORT_WRITE]++; ssize_t r = cut_iov(__real_writev, fd, iov, cnt, (size_t)prm); note("writev", nullptr, fd, r); return r; }
        int e = f == "eintr_write" ? EINTR : f == "eio_write" ? EIO : ENOSPC;
        S->fault_kind[e == EINTR ? F_EINTR : e == EIO ? F_EIO : F_ENOSPC]++; note("writev", nullptr, fd, -e); errno = e; return -1;
    }
    ssize_t r = __real_writev(fd, iov, cnt); note("writev", nullptr, fd, r); return r;
}
ssize_t __wrap_readv(int fd, const struct iovec* iov, int cnt) {
    if (!sut()) return __real_readv(fd, iov, cnt);
    int64_t prm;
    if (!g_nouio && fault_here("readv", &prm)) {
        const std::string& f = g_cur_op->fault;
        if (f == "short_read") { S->fault_kind[F_SHORT_READ]++; ssize_t r = cut_iov(__real_readv, fd, iov, cnt, (size_t)prm); note("readv", nullptr, fd, r); return r; }
        int e = f == "eintr_read" ? EINTR : EIO;
        S->fault_kind[e == EINTR ? F_EINTR : F_EIO]++; note("readv", nullptr, fd, -e); errno = e; return -1;
    }
    ssize_t r = __real_readv(fd, iov, cnt); note("readv", nullptr, fd, r); return r;
}
off_t __wrap_lseek(int fd, off_t o, int wh) {
    if (!sut()) return __real_lseek(fd, o, wh);
    int64_t prm; if (fault_here("lseek", &prm)) { S->fault_kind[F_EIO]++; note("lseek", nullptr, fd, -EIO); errno = EIO; return (off_t)-1; }
    off_t r = __real_lseek(fd, o, wh); note("lseek", nullptr, fd, (long)r); return r;
}
DIR* __wrap_opendir(const char* p) {
    if (!sut()) return __real_opendir(p);
    int64_t prm; if (fault_here("opendir", &prm)) { S->fault_kind[F_EMFILE]++; note("opendir", p, -1, -EMFILE); errno = EMFILE; return nullptr; }
    DIR* d = __real_opendir(p); note("opendir", p, -1, d ? 0 : -errno); return d;
}
struct dirent* __wrap_readdir(DIR* d) {
    if (!sut()) return __real_readdir(d);
    int64_t prm; if (fault_here("readdir", &prm)) { S->fault_kind[F_EIO]++; errno = EIO; return nullptr; }
    struct dirent* e = __real_readdir(d);
    if (e && g_dtype_unknown) { e->d_type = DT_UNKNOWN; S->fault_kind[F_DTYPE_UNKNOWN]++; }
    return e;
}
int __wrap_closedir(DIR* d) {
    if (!sut()) return __real_closedir(d);
    int64_t prm; if (fault_here("closedir", &prm)) { S->fault_kind[F_EINTR]++; note("closedir", nullptr, -1, -EINTR); errno = (int)prm ? (int)prm : EINTR; return -1; }
    int r = __real_closedir(d); note("closedir", nullptr, -1, r); return r;
}
int __wrap_mkdir(const char* p, mode_t m) { if (!sut()) return __real_mkdir(p, m); int r = __real_mkdir(p, m); note("mkdir", p, -1, r ? -errno : 0); return r; }
int __wrap_rmdir(const char* p) { if (!sut()) return __real_rmdir(p); int r = __real_rmdir(p); note("rmdir", p, -1, r ? -errno : 0); return r; }
int __wrap_unlink(const char* p) { if (!sut()) return __real_unlink(p); int r = __real_unlink(p); note("unlink", p, -1, r ? -errno : 0); return r; }
int __wrap_rename(const char* a, const char* b) { if (!sut()) return __real_rename(a, b); int r = __real_rename(a, b); note("rename", a, -1, r ? -errno : 0); note("rename2", b, -1, 0); return r; }
int __wrap_symlink(const char* a, const char* b) { if (!sut()) return __real_symlink(a, b); int r = __real_symlink(a, b); note("symlink", b, -1, r ? -errno : 0); return r; }
ssize_t __wrap_readlink(const char* p, char* b, size_t n) { if (!sut()) return __real_readlink(p, b, n); ssize_t r = __real_readlink(p, b, n); note("readlink", p, -1, (long)r); return r; }
int __wrap_stat(const char* p, struct stat* st) { if (!sut()) return __real_stat(p, st); int r = __real_stat(p, st); note("stat", p, -1, r ? -errno : 0); return r; }
int __wrap_lstat(const char* p, struct stat* st) { if (!sut()) return __real_lstat(p, st); int r = __real_lstat(p, st); note("lstat", p, -1, r ? -errno : 0); return r; }
int __wrap_fstat(int fd, struct stat* st) { if (!sut()) return __real_fstat(fd, st); int r = __real_fstat(fd, st); note("fstat", nullptr, fd, r ? -errno : 0); return r; }
int __wrap_fsync(int fd) { if (!sut()) return __real_fsync(fd); note("fsync", nullptr, fd, 0); return 0; }
int __wrap_fdatasync(int fd) { if (!sut()) return __real_fdatasync(fd); note("fdatasync", nullptr, fd, 0); return 0; }
int __wrap_getentropy(void* buf, size_t n) {
    if (!sut()) return __real_getentropy(buf, n);
    if (g_cur_op && g_cur_op->fault == "getentropy_enosys") { if (S) { S->faults_fired++; S->fault_kind[F_EIO]++; } errno = ENOSYS; return -1; }   // old kernel / seccomp: the fallbacks must fill the buffer
    int r = __real_getentropy(buf, n);           // keeps glibc's real contract (e.g. the 256-byte limit)
    if (r == 0) { uint8_t* b = (uint8_t*)buf; for (size_t i = 0; i < n; i++) { uint8_t v = (uint8_t)(splitmix64(g_entropy_state) >> 13); b[i] = v; if (g_entropy_log) g_entropy_log->push_back(v); } }
    return r;
}
// getrandom(2), should the host use it: requests of up to 256 bytes are never interrupted, larger ones may come back short when a
// signal arrives (the kernel's documented contract); EINTR before any byte was produced is possible as well
ssize_t __real_getrandom(void*, size_t, unsigned);
ssize_t __wrap_getrandom(void* buf, size_t n, unsigned flags) {
    if (!sut()) return __real_getrandom(buf, n, flags);
    const std::string f = g_cur_op ? g_cur_op->fault : std::string();
    if (f == "getentropy_enosys") { if (S) { S->faults_fired++; S->fault_kind[F_EIO]++; } errno = ENOSYS; return -1; }
    int nth = ++g_callcount["getrandom"];
    size_t give = n;
    if (f == "getrandom_eintr" && nth == 1) { if (S) { S->faults_fired++; S->fault_kind[F_EINTR]++; } errno = EINTR; return -1; }
    if (f == "getrandom_short" && nth == 1 && n > 256) { give = 256 + (n - 256) / 3; if (S) { S->faults_fired++; S->fault_kind[F_SHORT_READ]++; } }
    uint8_t* b = (uint8_t*)buf; for (size_t i = 0; i < give; i++) { uint8_t v = (uint8_t)(splitmix64(g_entropy_state) >> 13); b[i] = v; if (g_entropy_log) g_entropy_log->push_back(v); }
    return (ssize_t)give;
}
// clock faults for C15 (simcore calls this weak hook first)
int sim_clock_hook(clockid_t id, struct timespec* ts, int* result) {
    (void)id; (void)ts;
    int64_t prm; if (sut() && fault_here("clock_gettime", &prm)) { errno = (int)prm; *result = -1; return 1; }
    return 0;
}
}

// ---------------------------------------------------------------- WASI errno numbering (from the WASI specification)
static int wasi_errno_of(int e) {
    switch (e) {
        case 0: return 0; case E2BIG: return 1; case EACCES: return 2; case EAGAIN: return 6; case EBADF: return 8; case EBUSY: return 10; case ECHILD: return 12;
        case EDOM: return 18; case EEXIST: return 20; case EFAULT: return 21; case EFBIG: return 22; case EILSEQ: return 25; case EINTR: return 27; case EINVAL: return 28;
        case EIO: return 29; case EISDIR: return 31; case ELOOP: return 32; case EMFILE: return 33; case EMLINK: return 34; case ENAMETOOLONG: return 37; case ENFILE: return 41;
        case ENODEV: return 43; case ENOENT: return 44; case ENOEXEC: return 45; case ENOMEM: return 48; case ENOSPC: return 51; case ENOSYS: return 52; case ENOTDIR: return 54;
        case ENOTEMPTY: return 55; case ENOTTY: return 59; case ENXIO: return 60; case EOVERFLOW: return 61; case EPERM: return 63; case EPIPE: return 64; case ERANGE: return 68;
        case EROFS: return 69; case ESPIPE: return 70; case ESRCH: return 71; case ETXTBSY: return 74; case EXDEV: return 75;
        default: return -1;
    }
}
static const char* wasi_errno_name(int n) {
    static const char* names[] = {"success","2big","acces","addrinuse","addrnotavail","afnosupport","again","already","badf","badmsg","busy","canceled","child","connaborted","connrefused","connreset","deadlk","destaddrreq","dom","dquot","exist","fault","fbig","hostunreach","idrm","ilseq","inprogress","intr","inval","io","isconn","isdir","loop","mfile","mlink","msgsize","multihop","nametoolong","netdown","netreset","netunreach","nfile","nobufs","nodev","noent","noexec","nolck","nolink","nomem","nomsg","noprotoopt","nospc","nosys","notconn","notdir","notempty","notrecoverable","notsock","notsup","notty","nxio","overflow","ownerdead","perm","pipe","proto","protonosupport","prototype","range","rofs","spipe","srch","stale","timedout","txtbsy","xdev","notcapable"};
    return n >= 0 && n <= 76 ? names[n] : "?";
}
