// simwasi — WASI host simulation engine (E3).  Real code: wasi/wasi.c + the generated 'wasihost' module translated by the
// current /repo translator + w2c2_base.h; the real kernel on a per-run tmpfs scratch tree.  Reference: the same POSIX
// operations performed directly on a mirror tree.  Simulated: clock, entropy bytes, exit, thread scheduling, I/O faults.
#include "simwasi_ops.h"

static std::string g_scratch_base = "/dev/shm", g_replay_dir = "/verif/replays";
static std::string g_build_tag;    // build configuration of this binary (written into replay files)
static bool g_write_replays = true;
// fixed-width scratch names: path lengths (PATH_MAX sweeps) must not depend on the process id
static std::string pid7() { char b[16]; snprintf(b, sizeof b, "%07d", (int)getpid()); return b; }

static void rm_rf(const std::string& p) {
    struct stat st; if (__real_lstat(p.c_str(), &st) != 0) return;
    if (S_ISDIR(st.st_mode)) { DIR* d = __real_opendir(p.c_str()); if (d) { while (dirent* e = __real_readdir(d)) { std::string n = e->d_name; if (n == "." || n == "..") continue; rm_rf(p + "/" + n); } __real_closedir(d); } __real_rmdir(p.c_str()); }
    else __real_unlink(p.c_str());
}
static void mkdirs(const std::string& p) { for (size_t i = 1; i <= p.size(); i++) if (i == p.size() || p[i] == '/') __real_mkdir(p.substr(0, i).c_str(), 0755); }

static void child_finish(int rc) {
    S->st = sim::stats();
    const std::vector<uint32_t>& t = sim::decision_trace();
    S->ntrace = (uint32_t)std::min<size_t>(t.size(), 1 << 14);
    if (S->ntrace) memcpy(S->trace, t.data(), S->ntrace * sizeof(uint32_t));
    S->exit_code = rc; S->finished = 1;
    _exit(0);
}
static void child_fatal(int status, const char* detail) {
    snprintf(S->fatal, sizeof S->fatal, "%s", detail); S->st = sim::stats(); S->finished = 2;
    _exit(status == RS_DEADLOCK ? 91 : 92);
}

// ---------------------------------------------------------------- the child: one simulated process
static void make_file(const std::string& path, uint64_t size, const std::string& tag) {
    int fd = __real_open(path.c_str(), O_WRONLY | O_CREAT | O_TRUNC, 0644); if (fd < 0) return;
    uint64_t st = std::hash<std::string>()(tag); std::vector<unsigned char> buf((size_t)size);
    for (auto& b : buf) b = (unsigned char)((splitmix64(st) >> 9) | 1);
    if (size) { ssize_t w = write(fd, buf.data(), buf.size()); (void)w; }
    __real_close(fd);
}
static void child_run(const Plan& p, const std::string& root) {
    alarm(30);
    Ctx ctx; X = &ctx; ctx.plan = &p; ctx.prop = p.prop; ctx.root = root; ctx.pmax = wglue_path_max();
    std::string deep = p.deep > 0 ? "/" + std::string((size_t)p.deep, 'x') : "";
    ctx.P = root + "/p" + deep; ctx.M = root + "/m" + deep;
    mkdirs(ctx.P); mkdirs(ctx.M);
    for (int i = 0; i < p.npre; i++) { mkdirs(ctx.P + "/d" + std::to_string(i)); mkdirs(ctx.M + "/d" + std::to_string(i)); }
    for (auto& f : p.files) {
        size_t c = f.rfind(':');
        if (!f.empty() && f.back() == '/') { mkdirs(ctx.P + "/" + f.substr(0, f.size() - 1)); mkdirs(ctx.M + "/" + f.substr(0, f.size() - 1)); continue; }
        std::string rel = c == std::string::npos ? f : f.substr(0, c); uint64_t sz = c == std::string::npos ? 0 : strtoull(f.c_str() + c + 1, 0, 10);
        if (rel.find('>') != std::string::npos) { size_t g = rel.find('>'); std::string ln = rel.substr(0, g), tgt = rel.substr(g + 1); __real_symlink(tgt.c_str(), (ctx.P + "/" + ln).c_str()); __real_symlink(tgt.c_str(), (ctx.M + "/" + ln).c_str()); continue; }
        size_t sl = rel.rfind('/'); if (sl != std::string::npos) { mkdirs(ctx.P + "/" + rel.substr(0, sl)); mkdirs(ctx.M + "/" + rel.substr(0, sl)); }
        make_file(ctx.P + "/" + rel, sz, rel); make_file(ctx.M + "/" + rel, sz, rel);
    }
    int nfd = __real_open("/dev/null", O_RDWR); dup2(nfd, 0); dup2(nfd, 1);
    std::string errfile = root + "/stderr.txt"; int efd = __real_open(errfile.c_str(), O_WRONLY | O_CREAT | O_TRUNC, 0644); if (efd >= 0) { dup2(efd, 2); __real_close(efd); }
    // argv / envp
    std::vector<char*> av, ev; std::vector<std::string> as = p.argv, es = p.envp;
    for (auto& s : as) av.push_back((char*)s.c_str()); av.push_back(nullptr);
    for (auto& s : es) ev.push_back((char*)s.c_str()); ev.push_back(nullptr);
    ctx.data.seed(p.seed ^ 0xDA7A);
    g_entropy_state = p.seed ^ 0xE47;
    ctx.inst = wglue_instantiate(); ctx.mem = wglue_mem(ctx.inst); ctx.memsize = wglue_mem_size(ctx.inst);
    for (const SimDispatch* d = sim_dispatch; d->name; d++) ctx.disp[d->name] = d;
    if (!wglue_wasi_init((int)as.size(), av.data(), ev.data())) { add_viol(p.prop + "/init/wasiInit-failed", ""); child_finish(0); }
    for (int i = 0; i < 3; i++) { MFd e; e.live = true; e.stdio = true; ctx.tab.push_back(e); }
    for (int i = 0; i < p.npre; i++) {
        std::string reg = ctx.P + "/d" + std::to_string(i) + (p.trailing_slash ? "/" : "");
        unsigned fd = 0; if (!wglue_preopen(reg.c_str(), &fd)) { add_viol(p.prop + "/init/preopen-failed", reg); child_finish(0); }
        MFd e; e.live = true; e.preopen = true; e.dir = true; e.regpath = reg; e.ppath = ctx.P + "/d" + std::to_string(i); e.mpath = ctx.M + "/d" + std::to_string(i);
        while (ctx.tab.size() <= fd) ctx.tab.push_back(MFd());
        ctx.tab[fd] = e;
    }
    Config cfg; cfg.seed = p.seed; cfg.policy = p.policy; cfg.switch_prob = p.switch_prob; cfg.mem_mean = p.mem_mean; cfg.tick_ns = p.tick_ns; cfg.epoch_real_ns = p.epoch_real; cfg.epoch_mono_ns = p.epoch_mono;
    cfg.max_steps = 200000; cfg.timer_prob = 0;
    if (p.tcfail > 0) { cfg.thread_create_faults = true; cfg.thread_create_fail_prob = p.tcfail; }
    sim::set_replay_trace(p.sched);
    sim::begin(cfg, child_fatal);
    std::vector<int64_t> opened;       // every descriptor path_open ever returned, in order
    for (size_t i = 0; i < p.ops.size(); i++) {
        Op op = p.ops[i];
        S->cur_op = (int)i;
        // resolve symbolic descriptor references
        auto live_files = [&]() { std::vector<int64_t> v; for (size_t k = 3; k < ctx.tab.size(); k++) if (ctx.tab[k].live && !ctx.tab[k].preopen && !ctx.tab[k].dir) v.push_back((int64_t)k); return v; };
        auto live_dirs = [&]() { std::vector<int64_t> v; for (size_t k = 3; k < ctx.tab.size(); k++) if (ctx.tab[k].live && (ctx.tab[k].preopen || ctx.tab[k].dir)) v.push_back((int64_t)k); return v; };
        auto closed = [&]() { std::vector<int64_t> v; for (size_t k = 0; k < ctx.tab.size(); k++) if (!ctx.tab[k].live) v.push_back((int64_t)k); return v; };      // includes closed standard streams
        bool skip = false;
        for (const char* key : {"fd", "dirfd", "dirfd2"}) {
            std::string k = key;
            if (op.n.count(k + "_live")) { auto v = live_files(); if (v.empty()) skip = true; else op.n[k] = v[(size_t)op.n[k + "_live"] % v.size()]; }
            else if (op.n.count(k + "_dir")) { auto v = live_dirs(); if (v.empty()) skip = true; else op.n[k] = v[(size_t)op.n[k + "_dir"] % v.size()]; }
            else if (op.n.count(k + "_closed")) { auto v = closed(); if (v.empty()) skip = true; else op.n[k] = v[(size_t)op.n[k + "_closed"] % v.size()]; }
            else if (op.n.count(k + "_never")) { op.n[k] = (int64_t)ctx.tab.size() + op.n[k + "_never"]; }
        }
        if (skip) continue;
        if ((op.name == "fd_pwrite") && entry(op.get("fd")) && entry(op.get("fd"))->append) continue;   // POSIX-ambiguous: positional write on O_APPEND
        if (op.n.count("abs") && !op.path.empty() && op.path[0] != '/') { MFd* d = entry(op.get("dirfd")); op.path = ((d && !d->ppath.empty()) ? d->ppath : ctx.P + "/d0") + "/" + op.path; }      // dead / standard-stream / never-issued handles: below the first pre-opened directory
        exec_op(op);
        if (S->nviol) break;
        // table invariant after every operation: a host descriptor recorded for a live WASI descriptor is open, of the kind that was
        // opened (directory or not), and recorded for no other live descriptor
        if (op.name != "proc_exit" && op.name.compare(0, 4, "par_") != 0) {
            std::map<int, size_t> seen;
            for (size_t k = 3; k < ctx.tab.size() && !S->nviol; k++) {
                const MFd& e = ctx.tab[k];
                if (!e.live || e.preopen || e.stdio || e.stale || e.mfd < 0) continue;
                int nfd = -1, hd = 0; const char* pth = nullptr;
                if (!wglue_native_fd((unsigned)k, &nfd, &hd, &pth) || nfd < 0) continue;
                struct stat st;
                if (__real_fstat(nfd, &st) != 0) V("descriptor", "table:live-descriptor-records-closed-host-fd", "after " + op.name + ": WASI descriptor " + std::to_string(k) + " records host fd " + std::to_string(nfd) + ", which is not open");
                else if ((S_ISDIR(st.st_mode) != 0) != e.dir) V("descriptor", "table:host-fd-is-another-kind-of-file", "after " + op.name + ": WASI descriptor " + std::to_string(k) + (e.dir ? " (a directory)" : " (a file)") + " records host fd " + std::to_string(nfd) + ", which is " + (S_ISDIR(st.st_mode) ? "a directory" : "not a directory"));
                else if (seen.count(nfd)) V("descriptor", "table:two-live-descriptors-record-one-host-fd", "after " + op.name + ": WASI descriptors " + std::to_string(seen[nfd]) + " and " + std::to_string(k) + " both record host fd " + std::to_string(nfd));
                seen[nfd] = k;
            }
            if (S->nviol) break;
        }
    }
    if (!S->nviol && (p.prop == "C12" || p.prop == "C14" || p.prop == "C13")) compare_trees("at the end of the history");
    child_finish(0);
}

// ---------------------------------------------------------------- plan generators
template <class T> static const T& pick(Rng& r, const std::vector<T>& v) { return v[r.below((uint32_t)v.size())]; }
static Op mkop(const std::string& n, Rng& r) { Op o; o.name = n; o.abi = r.below(2) ? "p1" : "u"; return o; }
static void gen_common(Plan& p, Rng& r) {
    p.npre = 1 + (int)r.below(2); p.trailing_slash = r.below(4) == 0;
    static const int64_t ep[] = {1700000000ll, 2147483647ll, 8589934591ll, 1ll, 4102444800ll};
    p.epoch_real = ep[r.below(5)] * 1000000000ll + (r.below(2) ? 999999999ll - (int64_t)r.below(3) : (int64_t)r.below(1000000000u));
    p.epoch_mono = (int64_t)r.below(1000000) * 1000003ll + (r.below(3) == 0 ? 8589934592ll * 1000000000ll : 0);
    p.argv = {"prog"}; p.envp = {"A=b"};
    p.tick_ns = 1000;
}
static std::vector<uint32_t> gen_iov(Rng& r) {
    std::vector<uint32_t> v; int n = (int)r.below(6);
    static const uint32_t lens[] = {0, 1, 2, 7, 64, 100, 1000, 4096, 5000, 20000};
    for (int i = 0; i < n; i++) v.push_back(lens[r.below(10)]);
    return v;
}
static void gen_c12(Plan& p, Rng& r) {
    gen_common(p, r);
    bool faults = r.below(3) == 0;
    std::vector<std::string> names = {"f0", "f1", "f2", "sub/f3", "f4.txt", "f5"};
    p.files.push_back("d0/sub/");
    for (int i = 0; i < 3; i++) if (r.below(2)) p.files.push_back("d0/" + names[(size_t)i] + ":" + std::to_string(r.below(3) == 0 ? 0 : r.below(9000)));
    if (p.npre > 1 && r.below(2)) p.files.push_back("d1/f0:" + std::to_string(r.below(300)));
    int n = 5 + (int)r.below(36);
    for (int i = 0; i < n; i++) {
        if (i >= 2 && r.below(12) == 0) {   // concurrent phase: 2-3 tasks read/write/seek their own files at the same time
            Op o = mkop("par_rw", r); o.n["tasks"] = 2 + r.below(2); o.n["n"] = 3 + r.below(8); o.n["pseed"] = (int64_t)(r.next() & 0xFFFFFF); o.n["abimask"] = r.below(8); o.n["gen"] = i; p.ops.push_back(o); continue;
        }
        uint32_t k = r.below(100);
        if (i < 2 || k < 18) {
            Op o = mkop("path_open", r); o.n["dirfd"] = 3 + (int64_t)r.below((uint32_t)p.npre); o.path = pick(r, names); o.n["haspath"] = 1;
            uint32_t of = 0; if (r.below(2)) of |= 1; if (r.below(6) == 0) of |= 4; if (r.below(4) == 0) of |= 8; if (r.below(12) == 0) of |= 2;
            o.n["oflags"] = of; o.n["fdflags"] = r.below(5) == 0 ? 1 : 0;
            static const uint64_t rs[] = {R_READ, R_WRITE, R_READ | R_WRITE, R_READ | R_WRITE, R_READ | R_WRITE | R_SEEK | R_TELL | R_FDSTAT};
            o.n["rights"] = (int64_t)rs[r.below(5)];
            // directories opened with and without the DIRECTORY flag (open("sub", O_RDONLY) is a valid way to get a directory handle) and
            // opens relative to such handles
            if (r.below(6) == 0) { o.path = r.below(3) ? "sub" : "."; o.n["oflags"] = r.below(2) ? 2 : 0; o.n["fdflags"] = 0; o.n["rights"] = (int64_t)R_READ; }
            else if (r.below(4) == 0) { o.n.erase("dirfd"); o.n["dirfd_dir"] = r.below(6); if (r.below(2)) o.path = pick(r, std::vector<std::string>{"f3", "new", "f0", "sub/f3"}); }
            if (r.below(6) == 0) o.n["abs"] = 1;
            if (faults && r.below(2)) { o.fault = "realloc_fail"; o.fault_nth = 1; }     // fires only in an open that has to grow the descriptor table; the files opened before must stay usable
            p.ops.push_back(o);
        } else if (k < 62) {
            static const char* kinds[] = {"fd_write", "fd_write", "fd_pwrite", "fd_read", "fd_read", "fd_pread"};
            Op o = mkop(kinds[r.below(6)], r); o.n["fd_live"] = r.below(8); o.iov = gen_iov(r);
            if (r.below(3) == 0) o.n["empty_at_end"] = 1;
            if (o.name == "fd_pwrite" || o.name == "fd_pread") {
                // the offset is an unsigned 64-bit number: values from 2^63 up are negative as off_t and must be refused like POSIX does
                static const int64_t offs[] = {0, 1, 5, 100, 4095, 8192, 70000, (1ll << 32), (1ll << 32) + 77, (1ll << 33) - 5, (1ll << 31),
                                               (int64_t)0x8000000000000000ull, -1, (int64_t)0x8000000000000005ull, -4096, (int64_t)0x7FFFFFFFFFFFFFFFll};
                o.n["off"] = offs[r.below(r.below(4) == 0 ? 16 : 7)];
            }
            if (faults && r.below(3) == 0) {
                bool wr = o.name == "fd_write" || o.name == "fd_pwrite"; uint64_t tot = 0; for (uint32_t l : o.iov) tot += l;
                uint32_t c = r.below(7);
                if (c == 6) { o.fault = "malloc_fail"; o.fault_nth = 1; }      // the native iovec array cannot be allocated
                else if (c < 2 && tot > 1) { o.fault = wr ? "short_write" : "short_read"; o.fault_nth = 1; o.fault_param = 1 + (int64_t)r.below((uint32_t)std::min<uint64_t>(tot - 1, 5000)); }
                else if (c == 2) { o.fault = wr ? "eintr_write" : "eintr_read"; o.fault_nth = 1; }
                else if (c == 3) { o.fault = wr ? "eio_write" : "eio_read"; o.fault_nth = 1; }
                else if (c == 4 && wr) { o.fault = "enospc_write"; o.fault_nth = 1; }
                else if (c == 5 && (o.name == "fd_pwrite" || o.name == "fd_pread")) { o.fault = "lseek_fail"; o.fault_nth = 1 + (int)r.below(2); }
            }
            p.ops.push_back(o);
        } else if (k < 76) {
            Op o = mkop("fd_seek", r); o.n["fd_live"] = r.below(8);
            static const int64_t offs[] = {0, 0, 1, 10, -1, -10, 5000, 100000, (1ll << 32) + 3, -(1ll << 33)};
            o.n["off"] = offs[r.below(10)]; o.n["whence"] = r.below(12) == 0 ? 3 + (int64_t)r.below(3) : (int64_t)r.below(3);
            p.ops.push_back(o);
        } else if (k < 82) { Op o = mkop("fd_tell", r); o.n["fd_live"] = r.below(8); p.ops.push_back(o); }
        else if (k < 90) { Op o = mkop("fd_filestat_get", r); if (r.below(5) == 0) o.n["fd_dir"] = r.below(4); else o.n["fd_live"] = r.below(8); p.ops.push_back(o); }
        else if (k < 94) {
            // the name of an open file changes or disappears: descriptor-based calls keep referring to the file itself
            Op o = mkop(r.below(2) ? "path_rename" : "path_unlink_file", r); o.n["dirfd"] = 3; o.n["dirfd2"] = 3; o.path = pick(r, names); o.n["haspath"] = 1;
            if (o.name == "path_rename") o.path2 = r.below(2) ? pick(r, names) : std::string("moved") + std::to_string(r.below(3));
            p.ops.push_back(o);
        }
        else { Op o = mkop("fd_close", r); o.n["fd_live"] = r.below(8); p.ops.push_back(o); }
    }
}
static void gen_c13(Plan& p, Rng& r) {
    gen_common(p, r);
    p.files.push_back("d0/sub/"); p.files.push_back("d0/f0:100"); p.files.push_back("d0/sub/g:5");
    bool faults = r.below(4) == 0;
    bool table_faults = r.below(3) == 0;
    int n = 6 + (int)r.below(30);
    for (int i = 0; i < n; i++) {
        uint32_t k = r.below(100);
        if (i < 2 || k < 30) {
            Op o = mkop("path_open", r); o.path = pick(r, std::vector<std::string>{"f0", "f1", "sub", "sub/g", "nonexistent/x", "."}); o.n["haspath"] = 1;
            uint32_t c = r.below(10);
            if (c < 7) o.n["dirfd_dir"] = r.below(6); else if (c < 8) o.n["dirfd_closed"] = r.below(4); else if (c < 9) o.n["dirfd_never"] = r.below(3); else o.n["dirfd"] = r.below(3);
            o.n["oflags"] = (o.path == "sub" || o.path == ".") ? (r.below(2) ? 2 : 0) : (r.below(2) ? 1 : 0); o.n["rights"] = (int64_t)((o.path == "sub" || o.path == ".") ? R_READ : (R_READ | R_WRITE));
            if (faults && r.below(4) == 0) { o.fault = r.below(2) ? "open_emfile" : "strndup_fail"; o.fault_nth = 1; }
            else if (table_faults && r.below(2)) { o.fault = "realloc_fail"; o.fault_nth = 1; }   // fires only in an open that has to grow the descriptor table
            if (r.below(4) == 0) o.n["abs"] = 1;      // an absolute path (names an existing host file): the directory handle still has to be valid
            p.ops.push_back(o);
        } else if (k < 52) {
            Op o = mkop("fd_close", r); uint32_t c = r.below(10);
            if (c < 5) o.n["fd_live"] = r.below(8); else if (c < 6) o.n["fd_dir"] = r.below(6); else if (c < 8) o.n["fd_closed"] = r.below(4); else if (c < 9) o.n["fd_never"] = r.below(3); else o.n["fd"] = r.below(2) ? (int64_t)r.below(2) /* a standard stream (0 or 1; 2 carries the sanitizer's reports) */ : (int64_t)(r.below(2) ? 0xFFFFFFFFll : 0x80000000ll);
            if (faults && c < 6 && r.below(3) == 0) { o.fault = "close_fail"; o.fault_nth = 1; o.fault_param = r.below(2) ? EINTR : EIO; }
            p.ops.push_back(o);
        } else if (k < 70) {
            Op o = mkop("badfd_sweep", r); uint32_t c = r.below(10);
            if (c < 6) o.n["fd_closed"] = r.below(4); else if (c < 8) o.n["fd_never"] = r.below(3); else o.n["fd"] = (int64_t)(c == 8 ? 0xFFFFFFFFll : 0x80000000ll);
            p.ops.push_back(o);
        } else if (k < 78) { Op o = mkop("prestat", r); o.n["fd"] = 3 + (int64_t)r.below((uint32_t)p.npre); static const int64_t ds[] = {-3, -1, 0, 1, 20}; o.n["lendelta"] = ds[r.below(5)]; p.ops.push_back(o); }
        else if (k < 86) {
            static const char* kinds[] = {"fd_write", "fd_read", "fd_write", "fd_pread"};
            Op o = mkop(kinds[r.below(4)], r); uint32_t c = r.below(10);
            if (c < 4) o.n["fd_live"] = r.below(8); else if (c < 7) o.n["fd_closed"] = r.below(4); else if (c < 8) o.n["fd_never"] = r.below(3); else o.n["fd"] = o.name == "fd_read" ? 0 : 1 + (int64_t)r.below(2);
            o.iov = {(uint32_t)(1 + r.below(40))};
            p.ops.push_back(o);
        } else if (k < 92) { Op o = mkop("readdir", r); if (r.below(2)) o.n["fd_dir"] = r.below(6); else o.n["fd_closed"] = r.below(4); o.n["buflen"] = 200; o.n["resume"] = 0; o.n["restart"] = 0;
            if (faults && r.below(3) == 0) { o.fault = r.below(2) ? "opendir_emfile" : "readdir_eio"; o.fault_nth = 1; }
            p.ops.push_back(o); }
        else { Op o = mkop(r.below(2) ? "fd_filestat_get" : "fd_tell", r); if (r.below(2)) o.n["fd_closed"] = r.below(4); else o.n["fd_live"] = r.below(8); p.ops.push_back(o); }
    }
}
static std::string long_path(Rng& r, size_t len) {
    std::string s; while (s.size() < len) { size_t c = std::min<size_t>(len - s.size(), 1 + r.below(200)); s += std::string(c, (char)('a' + r.below(26))); if (s.size() < len) s += '/'; }
    return s.substr(0, len);
}
static void gen_c14(Plan& p, Rng& r) {
    gen_common(p, r);
    p.deep = r.below(3) == 0 ? (int)r.below(200) : 0;
    std::vector<std::string> names = {"a", "b", "dir1", "dir1/c", "dir2", "lnk", "dir1/sub", "zz.txt"};
    p.files.push_back("d0/dir1/"); p.files.push_back("d0/a:10"); p.files.push_back("d0/dir1/c:3");
    if (r.below(2)) p.files.push_back("d0/lnk>a");
    // a directory with many entries of assorted name lengths for fd_readdir
    int ne = (int)r.below(41);
    for (int i = 0; i < ne; i++) { static const size_t ls[] = {1, 2, 3, 8, 17, 40, 100, 200, 255}; size_t L = ls[r.below(9)]; std::string nm = "e" + std::to_string(i); if (nm.size() < L) nm += std::string(L - nm.size(), (char)('a' + i % 26)); p.files.push_back("d0/big/" + nm + (r.below(5) == 0 ? "/" : ":0")); }
    if (ne == 0) p.files.push_back("d0/big/");
    bool faults = r.below(4) == 0;
    int n = 5 + (int)r.below(30);
    size_t pmax = 4096;
    for (int i = 0; i < n; i++) {
        if (i >= 1 && r.below(12) == 0) {   // concurrent phase: 2-3 tasks create/rename/link/remove their own names in one directory at the same time
            Op o = mkop("par_path", r); o.n["tasks"] = 2 + r.below(2); o.n["n"] = 3 + r.below(10); o.n["pseed"] = (int64_t)(r.next() & 0xFFFFFF); o.n["abimask"] = r.below(8); o.n["gen"] = i; p.ops.push_back(o); continue;
        }
        uint32_t k = r.below(100);
        auto gpath = [&](Op& o) {
            uint32_t c = r.below(20);
            if (c == 0) o.path = "";
            else if (c == 1) { size_t base = 10 + (size_t)p.deep + g_scratch_base.size() + 40; static const long ds[] = {-3, -2, -1, 0, 1, 2, 50, 4096}; long L = (long)pmax - (long)base + ds[r.below(8)]; o.path = long_path(r, (size_t)std::max<long>(L, 1)); }
            else if (c == 2) o.path = long_path(r, pmax + r.below(4200));
            else if (c == 3) o.path = long_path(r, 200 + r.below(3800));
            else { o.path = pick(r, names); if (r.below(8) == 0) o.path += "/"; if (r.below(8) == 0) o.n["abs"] = 1; }
            o.n["haspath"] = 1;
        };
        if (k < 50) {
            static const char* kinds[] = {"path_create_directory", "path_remove_directory", "path_unlink_file", "path_rename", "path_symlink", "path_readlink", "path_filestat_get"};
            Op o = mkop(kinds[r.below(7)], r); gpath(o);
            o.n["dirfd"] = 3 + (int64_t)r.below((uint32_t)p.npre);
            if (o.name == "path_rename") { o.path2 = r.below(12) == 0 ? (r.below(2) ? std::string("") : long_path(r, pmax + 10)) : pick(r, names); o.n["dirfd2"] = 3 + (int64_t)r.below((uint32_t)p.npre); }
            if (o.name == "path_symlink") o.path2 = r.below(10) == 0 ? long_path(r, r.below(2) ? 5000 : 300) : pick(r, names);
            if (o.name == "path_readlink") { static const int64_t bl[] = {0, 1, 2, 64, 300}; o.n["buflen"] = bl[r.below(5)]; if (r.below(2)) o.path = "lnk"; }
            p.ops.push_back(o);
        } else if (k < 65) {
            Op o = mkop("path_open", r); o.path = pick(r, std::vector<std::string>{"big", "dir1", "dir2", "."}); o.n["haspath"] = 1; o.n["dirfd"] = 3; o.n["oflags"] = 2; o.n["rights"] = (int64_t)R_READ;
            p.ops.push_back(o);
        } else if (k < 95) {
            Op o = mkop("readdir", r); o.n["fd_dir"] = r.below(6);
            static const int64_t bl[] = {24, 25, 30, 48, 64, 100, 128, 300, 512, 1000, 4096, 20000}; o.n["buflen"] = bl[r.below(12)];
            o.n["resume_at"] = r.below(50); o.n["dtype_unknown"] = r.below(4) == 0;
            if (faults && r.below(3) == 0) { o.fault = r.below(2) ? "opendir_emfile" : "readdir_eio"; o.fault_nth = 1 + (int)r.below(5); }
            p.ops.push_back(o);
        } else { Op o = mkop("fd_close", r); o.n["fd_dir"] = r.below(6); p.ops.push_back(o); }
    }
}
static std::string rand_bytes(Rng& r, size_t n) { std::string s; for (size_t i = 0; i < n; i++) s += (char)(1 + r.below(255)); return s; }
static void gen_c15(Plan& p, Rng& r) {
    gen_common(p, r);
    p.argv.clear(); p.envp.clear();
    int na = (int)r.below(r.below(4) == 0 ? 21 : 5), ne = (int)r.below(r.below(4) == 0 ? 21 : 5);
    static const size_t ls[] = {0, 1, 3, 10, 50, 299, 300};
    for (int i = 0; i < na; i++) p.argv.push_back(rand_bytes(r, ls[r.below(7)]));
    for (int i = 0; i < ne; i++) p.envp.push_back(rand_bytes(r, ls[r.below(7)]));
    p.nothread = wglue_nothread() != 0;
    p.policy = r.below(3) == 0 ? 1 : 0; static const double sp[] = {0.05, 0.2, 0.5}; p.switch_prob = sp[r.below(3)];
    static const uint32_t mm[] = {0, 2, 10, 100}; p.mem_mean = mm[r.below(4)];
    if (r.below(6) == 0) p.tcfail = 0.3;
    int n = 3 + (int)r.below(14);
    uint32_t argbase = 1;
    for (int i = 0; i < n; i++) {
        uint32_t k = r.below(100);
        // place: 0 anywhere, 1 the string buffer ends with the last byte of linear memory, 2 the pointer array does
        if (k < 15) { Op o = mkop("args", r); o.n["place"] = r.below(4) == 0 ? 1 + (int64_t)r.below(2) : 0; p.ops.push_back(o); }
        else if (k < 30) { Op o = mkop("environ", r); o.n["place"] = r.below(4) == 0 ? 1 + (int64_t)r.below(2) : 0; p.ops.push_back(o); }
        else if (k < 55) { Op o = mkop(r.below(4) == 0 ? "clock_res_get" : "clock_time_get", r); static const int64_t ids[] = {0, 1, 0, 1, 1, 2, 3, 4, 5, 0xFFFFFFFFll, 100}; o.n["id"] = ids[r.below(11)]; { static const int64_t pr[] = {0, 1, 1000, 1000000, 10000000, 1000000000ll}; o.n["precision"] = pr[r.below(6)]; }
            if (o.name == "clock_time_get" && o.n["id"] < 4 && r.below(10) == 0) { o.fault = "clock_fail"; o.fault_nth = 1; o.fault_param = r.below(2) ? EINVAL : EPERM; }
            p.ops.push_back(o); }
        else if (k < 75) { Op o = mkop("random_get", r); static const int64_t ln[] = {0, 1, 7, 255, 256, 257, 1000, 4096, 65536, 1 << 20}; o.n["len"] = ln[r.below(r.below(3) == 0 ? 10 : 8)]; if (r.below(6) == 0) { o.fault = "getentropy_enosys"; o.fault_nth = 1; } else if (r.below(4) == 0) { o.fault = r.below(3) ? "getrandom_short" : "getrandom_eintr"; o.fault_nth = 1; } p.ops.push_back(o); }
        else if (k < 95) { Op o = mkop("spawn_round", r); o.n["tasks"] = 1 + r.below(4); o.n["per"] = 1 + r.below(3); o.n["argbase"] = argbase; argbase += 12; if (r.below(2)) o.n["mix"] = 1; p.ops.push_back(o); }
        else { Op o = mkop("proc_exit", r); static const int64_t cs[] = {0, 1, 2, 42, 255}; o.n["code"] = cs[r.below(5)]; p.ops.push_back(o); }
    }
}
static Plan make_plan(const std::string& prop, uint64_t root, uint64_t idx) {
    Plan p; p.prop = prop; p.seed = mix64(root, mix64(idx, 0xE3));
    Rng r; r.seed(p.seed ^ 0x706c616e);
    if (prop == "C12") gen_c12(p, r); else if (prop == "C13") gen_c13(p, r); else if (prop == "C14") gen_c14(p, r); else if (prop == "C15") gen_c15(p, r);
    else { fprintf(stderr, "simwasi: unknown property %s\n", prop.c_str()); _exit(96); }
    return p;
}

// ---------------------------------------------------------------- parent: run one plan in a child, judge
struct Result { std::vector<std::string> sigs; std::string detail; const char* status = "ok"; };
static std::string san_site(const std::string& err) {
    size_t pos = 0;
    while ((pos = err.find(" in ", pos)) != std::string::npos) { size_t e = err.find('\n', pos); std::string line = err.substr(pos + 4, e == std::string::npos ? std::string::npos : e - pos - 4); pos += 4;
        if (line.find("/wasi/wasi.c") != std::string::npos || line.find("w2c2_base.h") != std::string::npos) { size_t sp = line.find(' '); return line.substr(0, sp); } }
    return "?";
}
static int run_plan(uint64_t idx, const Plan& p) {
    static int counter = 0;
    std::string base = g_scratch_base + "/verif-e3-" + pid7();
    std::string root = base + "/r" + std::to_string(counter++ % 2);
    rm_rf(root); mkdirs(root);
    memset(S, 0, sizeof(Shared));
    fflush(nullptr);
    pid_t pid = fork();
    if (pid == 0) { child_run(p, root); _exit(0); }
    int st = 0; while (waitpid(pid, &st, 0) < 0 && errno == EINTR) {}
    Result res;
    std::string err; { FILE* f = fopen((root + "/stderr.txt").c_str(), "rb"); if (f) { char buf[6001]; fseek(f, 0, SEEK_END); long sz = ftell(f); fseek(f, std::max(0l, sz - 6000), SEEK_SET); size_t n = fread(buf, 1, 6000, f); buf[n] = 0; err = buf; fclose(f); } }
    const std::string P = p.prop;
    int ex = WIFEXITED(st) ? WEXITSTATUS(st) : -1, sg = WIFSIGNALED(st) ? WTERMSIG(st) : 0;
    std::string at = S->cur_op >= 0 && (size_t)S->cur_op < p.ops.size() ? p.ops[(size_t)S->cur_op].name : "?";
    for (uint32_t i = 0; i < S->nviol; i++) res.sigs.push_back(S->viol[i]);
    if (S->nviol) res.detail = S->detail;
    if (sg == SIGALRM) { res.sigs.push_back(P + "/hang/watchdog:" + at); res.detail = "child killed by the watchdog during " + at; }
    else if (sg) { res.sigs.push_back(P + "/signal/" + std::to_string(sg) + ":" + at); res.detail = "signal " + std::to_string(sg) + " during " + at + " " + err.substr(0, 800); }
    else if (ex == 77) {
        std::string kind = "sanitizer"; size_t a = err.find("ERROR: AddressSanitizer: ");
        if (a != std::string::npos) { size_t e = err.find_first_of(" \n", a + 25); kind = "asan-" + err.substr(a + 25, e - a - 25); } else if (err.find("runtime error:") != std::string::npos) kind = "ubsan";
        res.sigs.push_back(P + "/" + kind + "/" + at + ":" + san_site(err)); res.detail = "during op " + std::to_string(S->cur_op) + " (" + at + "): " + err.substr(0, 2500);
    } else if (ex == 91) { res.sigs.push_back(P + "/liveness/deadlock:" + at); res.detail = S->fatal; }
    else if (ex == 92) res.status = "budget";
    else if (ex != 0) { res.sigs.push_back(P + "/harness/child-exit-" + std::to_string(ex)); res.detail = err.substr(0, 600); }
    // proc_exit expectations
    int pe = -1; for (size_t i = 0; i < p.ops.size(); i++) if (p.ops[i].name == "proc_exit") { pe = (int)i; break; }
    if (ex == 0 && S->finished == 1 && !S->nviol) {
        if (S->via_exit) {
            if (pe < 0 || S->exit_op != pe) { res.sigs.push_back(P + "/exit/unexpected-exit:" + at); res.detail = "exit(" + std::to_string(S->exit_code) + ") called during " + at; }
            else if (S->exit_code != (int)p.ops[(size_t)pe].get("code")) { res.sigs.push_back(P + "/exit/proc_exit:wrong-status"); res.detail = "exit status " + std::to_string(S->exit_code) + " expected " + std::to_string(p.ops[(size_t)pe].get("code")); }
        }
    }
    // emit
    std::string all; for (auto& s : res.sigs) { bool dup = false; size_t q = 0; (void)q; if (all.find(s) != std::string::npos) dup = true; if (!dup) all += (all.empty() ? "" : ";") + s; }
    std::string rp = "-";
    std::vector<uint32_t> trace(S->trace, S->trace + S->ntrace);
    if (!res.sigs.empty() && g_write_replays) {
        char path[512]; snprintf(path, sizeof path, "%s/%s-%016llx.replay", g_replay_dir.c_str(), P.c_str(), (unsigned long long)p.seed);
        FILE* f = fopen(path, "w"); if (f) { std::string d = res.detail.substr(0, 2500); for (char& c : d) if (c == '\n') c = ' '; fprintf(f, "# signature %s\n# detail %s\n%s%s", all.c_str(), d.c_str(), g_build_tag.empty() ? "" : ("# build " + g_build_tag + "\n").c_str(), plan_to_text(p, &trace).c_str()); fclose(f); rp = path; }
    }
    std::string det = res.detail; for (char& c : det) if (c == '\n') c = ' ';
    printf("R idx=%llu seed=%llu status=%s verdict=%s sig=%s log=%016llx il=%016llx steps=%llu switches=%llu memev=%llu simns=%lld ops=%llu tasks=%d planops=%zu faults=",
           (unsigned long long)idx, (unsigned long long)p.seed, res.status, res.sigs.empty() ? "pass" : "FAIL", res.sigs.empty() ? "-" : all.c_str(), (unsigned long long)S->st.log_hash,
           (unsigned long long)S->st.il_hash, (unsigned long long)S->st.steps, (unsigned long long)S->st.switches, (unsigned long long)S->st.mem_events, (long long)S->st.sim_ns, (unsigned long long)S->ops_done, S->st.tasks, p.ops.size());
    bool first = true;
    for (int k = 0; k < F_KIND_COUNT; k++) { uint64_t n = S->st.faults[k] + S->fault_kind[k]; if (n) { printf("%s%s:%llu", first ? "" : ",", fault_names[k], (unsigned long long)n); first = false; } }
    if (first) printf("-");
    printf(" probes=concurrent_calls:%llu,host_calls:%llu,tree_compares:%llu,extra_guest_writes:%llu,faults_fired:%llu,via_exit:%d replay=%s", (unsigned long long)S->par_calls, (unsigned long long)S->host_calls, (unsigned long long)S->tree_compares,
           (unsigned long long)S->extra_guest_writes, (unsigned long long)S->faults_fired, S->via_exit, rp.c_str());
    if (!res.sigs.empty()) printf(" detail=%s", det.substr(0, 2500).c_str());
    printf("\n");
    rm_rf(root);
    return res.sigs.empty() ? 0 : 1;
}

extern "C" __attribute__((used)) const char* __asan_default_options() { return "exitcode=77:detect_leaks=0:abort_on_error=0:max_malloc_fill_size=1073741824:malloc_fill_byte=190"; }
extern "C" __attribute__((used)) const char* __ubsan_default_options() { return "halt_on_error=1:exitcode=77:print_stacktrace=1"; }
extern "C" void trap(int code) { fprintf(stderr, "TRAP %d\n", code); _exit(78); }

int main(int argc, char** argv) {
    std::string prop, replay; uint64_t root = 1, start = 0, count = 1, stride = 1; bool dump = false;
    for (int i = 1; i < argc; i++) {
        std::string a = argv[i]; auto nxt = [&]() { return std::string(i + 1 < argc ? argv[++i] : ""); };
        if (a == "--prop") prop = nxt(); else if (a == "--seed") root = strtoull(nxt().c_str(), 0, 10); else if (a == "--start") start = strtoull(nxt().c_str(), 0, 10);
        else if (a == "--count") count = strtoull(nxt().c_str(), 0, 10); else if (a == "--stride") stride = strtoull(nxt().c_str(), 0, 10); else if (a == "--replay") replay = nxt();
        else if (a == "--dump-plan") dump = true; else if (a == "--replay-dir") g_replay_dir = nxt(); else if (a == "--no-replay-files") g_write_replays = false; else if (a == "--scratch") g_scratch_base = nxt(); else if (a == "--build-tag") { g_build_tag = nxt(); g_nouio = g_build_tag == "nouio"; }
    }
    S = (Shared*)mmap(nullptr, sizeof(Shared), PROT_READ | PROT_WRITE, MAP_SHARED | MAP_ANONYMOUS, -1, 0);
    setvbuf(stdout, nullptr, _IOLBF, 0);
    std::string base = g_scratch_base + "/verif-e3-" + pid7();
    mkdirs(base);
    int rc = 0;
    if (!replay.empty()) {
        FILE* f = fopen(replay.c_str(), "r"); if (!f) { fprintf(stderr, "simwasi: cannot open %s\n", replay.c_str()); return 2; }
        std::string text; char buf[4096]; size_t n; while ((n = fread(buf, 1, sizeof buf, f)) > 0) text.append(buf, n); fclose(f);
        Plan p; if (!plan_from_text(text, p)) { fprintf(stderr, "simwasi: bad replay file\n"); return 2; }
        g_write_replays = false;
        rc = run_plan(0, p);
    } else {
        if (prop.empty()) { fprintf(stderr, "usage: simwasi --prop ID [--seed S --start I --count N --stride K | --replay FILE]\n"); return 2; }
        for (uint64_t k = 0; k < count; k++) {
            uint64_t idx = start + k * stride;
            Plan p = make_plan(prop, root, idx);
            if (dump) { printf("%s", plan_to_text(p, nullptr).c_str()); continue; }
            run_plan(idx, p);
        }
    }
    rm_rf(base);
    return rc;
}
