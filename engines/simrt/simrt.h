// simrt — runtime simulation engine (E1): shared declarations.
#pragma once
#include "../../simcore/simcore.h"
#include "glue.h"
#include <string>
#include <vector>
#include <map>
#include <functional>
#include <unordered_set>

struct Op {
    std::string name;       // export name, or a harness op: poke32/poke64/touch/drain
    uint64_t a[3] = {0, 0, 0};
    int nargs = 0;
    int fault = 0;          // k > 0: the k-th allocation inside this op fails
};

struct Plan {
    std::string prop;
    uint64_t seed = 0;
    int policy = 0; double switch_prob = 0.1; int pct_depth = 2; uint32_t mem_mean = 8;
    double spurious = 0; double timer_prob = 0.02; int64_t tick_ns = 1000; int64_t epoch_real = 1700000000ll * 1000000000ll;
    uint32_t pre_grow = 0;
    uint64_t init_seed = 0;             // seeds initial memory contents where a property wants them
    std::vector<std::vector<Op>> tasks; // tasks[0]: coordinator ops run after the workers are spawned
    std::vector<uint32_t> sched;        // optional decision trace
    std::string note;
};

struct Rec {
    int task = 0, opi = 0;
    const Op* op = nullptr;
    const SimExport* ex = nullptr;
    uint64_t inv = 0, ret = 0;          // global event sequence numbers
    int64_t inv_ns = 0, ret_ns = 0;     // simulated time
    uint64_t result = 0;
    bool returned = false, trapped = false;
    int trap_code = -1;
    std::vector<int> parked;            // C17: indices into history of waits parked at invoke
    uint64_t aux = 0;
};

struct Verdict {
    bool fail = false;
    std::string sig;     // first signature: <property>/<oracle>/<site>
    std::string detail;
    std::vector<std::string> sigs;   // all distinct signatures of this run
    void set(const std::string& s, const std::string& d) {
        for (auto& x : sigs) if (x == s) return;
        sigs.push_back(s);
        if (!fail) { fail = true; sig = s; detail = d; }
    }
    std::string all() const { std::string o; for (auto& x : sigs) o += (o.empty() ? "" : ";") + x; return o; }
};

// ---- linearizability (Wing-Gong with memoisation) ----
struct LinOp { uint64_t inv, ret; int idx; int task = -1; };
// step(state, idx) -> true and updates state if the op's recorded result is consistent
// returns: 1 linearizable, 0 not, -1 budget exceeded
int lin_check(const std::vector<LinOp>& ops, uint64_t init_state,
              const std::function<bool(uint64_t&, int)>& step,
              const std::function<bool(uint64_t)>& final_ok, uint64_t budget, uint64_t* states_out, bool po_only = false);
// po_only: only each task's program order constrains the total order (sequential consistency) instead of real time
