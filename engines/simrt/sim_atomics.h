/* Force-included (-include) into every SUT translation unit of the runtime engine.
 * clang's sanitizer-coverage does not instrument atomic builtins, so each one is given an explicit
 * scheduling point (and race-detector event) here.  A function-like macro is not re-expanded inside
 * its own replacement list, so the inner name still denotes the compiler builtin. */
#ifndef SIM_ATOMICS_H
#define SIM_ATOMICS_H
#ifdef __cplusplus
extern "C"
#endif
void sim_atomic_event(const void* addr, int size, int kind);
/* loads and stores pass their memory order to the simulator: a store weaker than seq_cst is delayed in the task's
 * store buffer (the simulator performs it later), a load sees the task's own delayed stores */
#ifdef __cplusplus
extern "C"
#endif
int sim_atomic_store(void* addr, int size, unsigned long long v, int order);
#ifdef __cplusplus
extern "C"
#endif
int sim_atomic_load(const void* addr, int size, int order, unsigned long long* out);
#define __atomic_load_n(p, o) __extension__({ __typeof__(*(p)) sim_v_; unsigned long long sim_f_; \
    if (sim_atomic_load((p), (int)sizeof(*(p)), (o), &sim_f_)) sim_v_ = (__typeof__(*(p)))sim_f_; else sim_v_ = __atomic_load_n((p), (o)); sim_v_; })
#define __atomic_store_n(p, v, o) __extension__({ __typeof__(*(p)) sim_s_ = (v); \
    if (!sim_atomic_store((p), (int)sizeof(*(p)), (unsigned long long)sim_s_, (o))) __atomic_store_n((p), sim_s_, (o)); })
#define __atomic_exchange_n(p, v, o)     (sim_atomic_event((p), (int)sizeof(*(p)), 2), __atomic_exchange_n((p), (v), (o)))
#define __atomic_fetch_add(p, v, o)      (sim_atomic_event((p), (int)sizeof(*(p)), 2), __atomic_fetch_add((p), (v), (o)))
#define __atomic_fetch_sub(p, v, o)      (sim_atomic_event((p), (int)sizeof(*(p)), 2), __atomic_fetch_sub((p), (v), (o)))
#define __atomic_fetch_and(p, v, o)      (sim_atomic_event((p), (int)sizeof(*(p)), 2), __atomic_fetch_and((p), (v), (o)))
#define __atomic_fetch_or(p, v, o)       (sim_atomic_event((p), (int)sizeof(*(p)), 2), __atomic_fetch_or((p), (v), (o)))
#define __atomic_fetch_xor(p, v, o)      (sim_atomic_event((p), (int)sizeof(*(p)), 2), __atomic_fetch_xor((p), (v), (o)))
#define __atomic_fetch_nand(p, v, o)     (sim_atomic_event((p), (int)sizeof(*(p)), 2), __atomic_fetch_nand((p), (v), (o)))
#define __atomic_and_fetch(p, v, o)      (sim_atomic_event((p), (int)sizeof(*(p)), 2), __atomic_and_fetch((p), (v), (o)))
#define __atomic_or_fetch(p, v, o)       (sim_atomic_event((p), (int)sizeof(*(p)), 2), __atomic_or_fetch((p), (v), (o)))
#define __atomic_xor_fetch(p, v, o)      (sim_atomic_event((p), (int)sizeof(*(p)), 2), __atomic_xor_fetch((p), (v), (o)))
#define __atomic_nand_fetch(p, v, o)     (sim_atomic_event((p), (int)sizeof(*(p)), 2), __atomic_nand_fetch((p), (v), (o)))
#define __atomic_exchange(p, v, r, o)    (sim_atomic_event((p), (int)sizeof(*(p)), 2), __atomic_exchange((p), (v), (r), (o)))
#define __atomic_compare_exchange(p, e, d, w, s, f) \
    (sim_atomic_event((p), (int)sizeof(*(p)), 2), __atomic_compare_exchange((p), (e), (d), (w), (s), (f)))
#define __atomic_test_and_set(p, o)      (sim_atomic_event((p), 1, 2), __atomic_test_and_set((p), (o)))
#define __atomic_clear(p, o)             (sim_atomic_event((p), 1, 2), __atomic_clear((p), (o)))
/* generic (pointer result) load/store: treated as full-strength accesses with a scheduling point */
#define __atomic_load(p, r, o)           (sim_atomic_event((p), (int)sizeof(*(p)), 2), __atomic_load((p), (r), (o)))
#define __atomic_store(p, v, o)          (sim_atomic_event((p), (int)sizeof(*(p)), 2), __atomic_store((p), (v), (o)))
#define __atomic_add_fetch(p, v, o)      (sim_atomic_event((p), (int)sizeof(*(p)), 2), __atomic_add_fetch((p), (v), (o)))
#define __atomic_sub_fetch(p, v, o)      (sim_atomic_event((p), (int)sizeof(*(p)), 2), __atomic_sub_fetch((p), (v), (o)))
#define __atomic_compare_exchange_n(p, e, d, w, s, f) \
    (sim_atomic_event((p), (int)sizeof(*(p)), 2), __atomic_compare_exchange_n((p), (e), (d), (w), (s), (f)))
#define __atomic_thread_fence(o)         (sim_atomic_event((void*)0, 0, 3), __atomic_thread_fence(o))
#define __sync_fetch_and_sub(p, v)       (sim_atomic_event((p), (int)sizeof(*(p)), 2), __sync_fetch_and_sub((p), (v)))
#define __sync_fetch_and_or(p, v)        (sim_atomic_event((p), (int)sizeof(*(p)), 2), __sync_fetch_and_or((p), (v)))
#define __sync_fetch_and_and(p, v)       (sim_atomic_event((p), (int)sizeof(*(p)), 2), __sync_fetch_and_and((p), (v)))
#define __sync_fetch_and_xor(p, v)       (sim_atomic_event((p), (int)sizeof(*(p)), 2), __sync_fetch_and_xor((p), (v)))
#define __sync_fetch_and_nand(p, v)      (sim_atomic_event((p), (int)sizeof(*(p)), 2), __sync_fetch_and_nand((p), (v)))
#define __sync_add_and_fetch(p, v)       (sim_atomic_event((p), (int)sizeof(*(p)), 2), __sync_add_and_fetch((p), (v)))
#define __sync_sub_and_fetch(p, v)       (sim_atomic_event((p), (int)sizeof(*(p)), 2), __sync_sub_and_fetch((p), (v)))
#define __sync_or_and_fetch(p, v)        (sim_atomic_event((p), (int)sizeof(*(p)), 2), __sync_or_and_fetch((p), (v)))
#define __sync_and_and_fetch(p, v)       (sim_atomic_event((p), (int)sizeof(*(p)), 2), __sync_and_and_fetch((p), (v)))
#define __sync_xor_and_fetch(p, v)       (sim_atomic_event((p), (int)sizeof(*(p)), 2), __sync_xor_and_fetch((p), (v)))
#define __sync_lock_test_and_set(p, v)   (sim_atomic_event((p), (int)sizeof(*(p)), 2), __sync_lock_test_and_set((p), (v)))
#define __sync_lock_release(p)           (sim_atomic_event((p), (int)sizeof(*(p)), 2), __sync_lock_release((p)))
#define __sync_fetch_and_add(p, v)       (sim_atomic_event((p), (int)sizeof(*(p)), 2), __sync_fetch_and_add((p), (v)))
#define __sync_val_compare_and_swap(p, e, d) (sim_atomic_event((p), (int)sizeof(*(p)), 2), __sync_val_compare_and_swap((p), (e), (d)))
#define __sync_bool_compare_and_swap(p, e, d) (sim_atomic_event((p), (int)sizeof(*(p)), 2), __sync_bool_compare_and_swap((p), (e), (d)))
#define __sync_synchronize()             (sim_atomic_event((void*)0, 0, 3), __sync_synchronize())
#endif
