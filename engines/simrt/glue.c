/* Glue between the C++ harness and one generated module. Compiled per module with
 * -DMOD=<name> -DMOD_HEADER="<name>.h" -DMOD_EXPORTS="<name>_exports.inc". Not instrumented. */
#include <stdlib.h>
#include <string.h>
#include MOD_HEADER
#include "glue.h"

#define CAT3_(a, b, c) a##b##c
#define CAT3(a, b, c) CAT3_(a, b, c)
#define INST CAT3(MOD, Instance, )

#define X(sym, name, sig, kind, info) { name, sig, kind, info, (void (*)(void))CAT3(MOD, _, sym) },
const SimExport sim_exports[] = {
#include MOD_EXPORTS
    { 0, 0, 0, 0, 0 }
};
#undef X

static void* glue_resolve(const char* module, const char* name) {
    return glue_resolve_hook ? glue_resolve_hook(module, name) : NULL;
}
void* (*glue_resolve_hook)(const char*, const char*) = NULL;

void* glue_instantiate(void) {
    INST* i = (INST*)calloc(1, sizeof(INST));
    CAT3(MOD, Instantiate, )(i, glue_resolve);
    return i;
}
void* glue_new_child(void* parent) { wasmModuleInstance* p = (wasmModuleInstance*)parent; return p->newChild(p); }
void glue_free_instance(void* inst) { CAT3(MOD, FreeInstance, )((INST*)inst); free(inst); }
void glue_free_child(void* inst) { free(inst); }
wasmMemory* glue_memory(void* inst) { return CAT3(MOD, _, memory)((INST*)inst); }
size_t glue_memory_struct_size(void) { return sizeof(wasmMemory); }
size_t glue_memory_mutex_offset(void) {
#ifdef WASM_MUTEX_TYPE
    return offsetof(wasmMemory, mutex);
#else
    return sizeof(wasmMemory);
#endif
}
unsigned char* glue_mem_data(wasmMemory* m) { return m->data; }
unsigned glue_mem_pages(wasmMemory* m) { return m->pages; }
unsigned glue_mem_size(wasmMemory* m) { return m->size; }
unsigned glue_mem_max(wasmMemory* m) { return m->maxPages; }
int glue_mem_shared(wasmMemory* m) { return m->shared; }
/* descriptor fields the race detector watches: data, size, pages, maxPages */
void glue_mem_desc_range(wasmMemory* m, const void** lo, const void** hi) {
    *lo = (const char*)m + offsetof(wasmMemory, data);
    *hi = (const char*)m + offsetof(wasmMemory, maxPages) + sizeof(m->maxPages);
}
size_t glue_mem_field_offset(int which) {
    switch (which) { case 0: return offsetof(wasmMemory, data); case 1: return offsetof(wasmMemory, size);
    case 2: return offsetof(wasmMemory, pages); default: return offsetof(wasmMemory, maxPages); }
}
int glue_big_endian(void) { return WASM_ENDIAN == WASM_BIG_ENDIAN; }
#define STR_(x) #x
#define STR(x) STR_(x)
const char* glue_module_name(void) { return STR(MOD); }
/* a shared memory owned by the embedder (for modules that import theirs) */
wasmMemory* glue_shared_memory_new(unsigned minPages, unsigned maxPages) { return wasmMemoryAllocate(minPages, maxPages, true); }
void glue_shared_memory_free(wasmMemory* m) { if (m) { wasmMemoryFree(m); free(m); } }
