#ifndef SIMRT_GLUE_H
#define SIMRT_GLUE_H
#include <stddef.h>
#ifdef __cplusplus
extern "C" {
#endif
typedef struct SimExport { const char* name; const char* sig; const char* kind; const char* info; void (*fn)(void); } SimExport;
extern const SimExport sim_exports[];
extern void* (*glue_resolve_hook)(const char*, const char*);
void* glue_instantiate(void);
void* glue_new_child(void* parent);
void glue_free_instance(void* inst);
void glue_free_child(void* inst);
struct wasmMemory;
struct wasmMemory* glue_memory(void* inst);
size_t glue_memory_struct_size(void);
size_t glue_memory_mutex_offset(void);
unsigned char* glue_mem_data(struct wasmMemory* m);
unsigned glue_mem_pages(struct wasmMemory* m);
unsigned glue_mem_size(struct wasmMemory* m);
unsigned glue_mem_max(struct wasmMemory* m);
const char* glue_module_name(void);
struct wasmMemory* glue_shared_memory_new(unsigned minPages, unsigned maxPages);
void glue_shared_memory_free(struct wasmMemory* m);
int glue_mem_shared(struct wasmMemory* m);
void glue_mem_desc_range(struct wasmMemory* m, const void** lo, const void** hi);
size_t glue_mem_field_offset(int which);
int glue_big_endian(void);
#ifdef __cplusplus
}
#endif
#endif
