// simxl — translator simulation engine (E2).  Real code: every w2c2/*.c of the current /repo tree (main renamed to
// w2c2_main), running in a forked child per simulated run on a real tmpfs scratch tree.  Simulated: pthread objects
// and scheduling (simcore), CPU count, exit, I/O faults; monitored: every path-taking mutating libc call.
#include "../../simcore/simcore.h"
#include <string>
#include <vector>
#include <map>
#include <set>
#include <sstream>
#include <algorithm>
#include <stdio.h>
#include <stdlib.h>
#include <string.h>
#include <unistd.h>
#include <fcntl.h>
#include <errno.h>
#include <signal.h>
#include <stdarg.h>
#include <dirent.h>
#include <limits.h>
#include <sys/mman.h>
#include <sys/stat.h>
#include <sys/wait.h>
#include <sys/resource.h>
#include <inttypes.h>

using namespace sim;
static std::string pid7() { char b[16]; snprintf(b, sizeof b, "%07d", (int)getpid()); return b; }
extern "C" int w2c2_main(int argc, char** argv);

// ------------------------------------------------------------------ plan
struct FileSpec { std::string rel; std::string kind; };   // pre-existing decoy (rel to root)
struct IoFault { std::string call; int nth; int err; };
struct Plan {
    std::string prop; uint64_t seed = 0, gseed = 0;
    int policy = 0; double switch_prob = 0.1; int pct_depth = 2; uint32_t mem_mean = 200; double spurious = 0; int ncpu = 4;
    double tcfail = 0;
    std::string module, ref;      // absolute paths of the corpus files
    int nfuncs = -1; std::string changed;   // corpus info
    long trunc = -1;              // serve only the first k bytes of the module (torn write)
    std::vector<std::vector<std::string>> args;   // option groups, e.g. {"-t","3"}
    int shape = 0; bool input_in_outdir = false;
    bool out_symlink = false;  // the output file exists already, as a symbolic link to a file in another directory
    uint32_t libc_every = 0;   // every n-th sprintf/strcpy/... return is a scheduling point
    std::vector<FileSpec> decoys;
    std::vector<IoFault> faults;
    std::vector<uint32_t> sched;
    bool canonical = false;
};

static std::string g_scratch_base = "/dev/shm";
static std::string g_corpus_dir, g_replay_dir = "/verif/replays";
static bool g_sweep = false;     // corpus = sweep.txt; run idx translates module idx (each module once, untruncated)
static bool g_write_replays = true, g_keep = false, g_no_t_option = false;

// ------------------------------------------------------------------ shared child -> parent report
struct Shared {
    int exit_code; int via_exit; int finished;
    Stats st;
    uint32_t nviol; char viol[12][300];
    uint32_t ntrace; uint32_t trace[1 << 16];
    uint64_t fopen_w, fopen_r, removes, io_faults;
    char fatal[600];
};
static Shared* S = nullptr;

// ------------------------------------------------------------------ child-side context (monitor)
struct ChildCtx {
    std::string root, outdir, outbase, hdrbase, module_path, ref_path;
    bool clean = false, extdata = false;
    std::vector<IoFault> faults;
    std::map<std::string, int> callcount;
};
static ChildCtx* C = nullptr;

static void add_viol(const char* fmt, ...) {
    if (!S || S->nviol >= 12) return;
    va_list ap; va_start(ap, fmt);
    vsnprintf(S->viol[S->nviol], sizeof S->viol[0], fmt, ap);
    va_end(ap);
    S->nviol++;
}
static bool is_impl_name(const std::string& b) {
    if (b.size() != 13 || (b[0] != 's' && b[0] != 'd') || b.substr(11) != ".c") return false;
    for (int i = 1; i <= 10; i++) if (b[(size_t)i] < '0' || b[(size_t)i] > '9') return false;
    return true;
}
static std::string norm_abs(const std::string& p) {
    // absolute, normalised (no symlink resolution needed: the scratch tree has none)
    std::string a = p;
    if (a.empty() || a[0] != '/') { char cwd[PATH_MAX]; if (!getcwd(cwd, sizeof cwd)) cwd[0] = 0; a = std::string(cwd) + "/" + p; }
    std::vector<std::string> parts; std::string cur;
    for (size_t i = 0; i <= a.size(); i++) {
        if (i == a.size() || a[i] == '/') { if (cur == "..") { if (!parts.empty()) parts.pop_back(); } else if (!cur.empty() && cur != ".") parts.push_back(cur); cur.clear(); }
        else cur += a[i];
    }
    std::string o; for (auto& s : parts) o += "/" + s;
    return o.empty() ? "/" : o;
}
static void split_path(const std::string& abs, std::string* dir, std::string* base) {
    size_t s = abs.rfind('/'); *dir = s == 0 ? "/" : abs.substr(0, s); *base = abs.substr(s + 1);
}
static std::string name_class(const std::string& abs);
static void monitor_write(const char* call, const char* path) {
    if (!C) return;
    std::string abs = norm_abs(path), dir, base; split_path(abs, &dir, &base);
    bool ok = dir == C->outdir && (base == C->outbase || base == C->hdrbase || is_impl_name(base) || (C->extdata && base == "datasegments"));
    if (!ok) add_viol("C20/monitor/%s-write:%s", call, name_class(abs).c_str());
    log_event("fs-write", fnv_step(FNV_INIT, std::hash<std::string>()(abs.substr(C->root.size() < abs.size() ? C->root.size() : 0))));
}
static void monitor_delete(const char* call, const char* path) {
    if (!C) return;
    std::string abs = norm_abs(path), dir, base; split_path(abs, &dir, &base);
    bool ok = C->clean && dir == C->outdir && is_impl_name(base);
    if (!ok) add_viol("C20/monitor/%s-delete:%s", call, name_class(abs).c_str());
}
static void monitor_refuse(const char* call, const char* path) {
    add_viol("C20/monitor/unexpected-call:%s:%s", call, path ? name_class(norm_abs(path)).c_str() : "-");
}
// classify a path for signatures: which decoy kind / role it has
static std::map<std::string, std::string>* g_kinds = nullptr;   // abs path -> kind
static std::string name_class(const std::string& abs) {
    if (g_kinds) { auto it = g_kinds->find(abs); if (it != g_kinds->end()) return it->second; }
    std::string dir, base; split_path(abs, &dir, &base);
    if (C && dir != C->outdir) return "outside-output-dir";
    if (is_impl_name(base)) return "impl-pattern-name";
    return "other-name-in-output-dir";
}

static int fault_for(const char* call) {
    if (!C) return 0;
    int n = ++C->callcount[call];
    for (auto& f : C->faults) if (f.call == call && f.nth == n) return f.err;
    return 0;
}

static void child_finish(int rc) {
    S->st = sim::stats();
    const std::vector<uint32_t>& t = sim::decision_trace();
    S->ntrace = (uint32_t)std::min<size_t>(t.size(), 1 << 16);
    if (S->ntrace) memcpy(S->trace, t.data(), S->ntrace * sizeof(uint32_t));
    S->exit_code = rc; S->finished = 1;
    fflush(nullptr);
    _exit(rc & 0xff);
}
static void child_fatal(int status, const char* detail) {
    snprintf(S->fatal, sizeof S->fatal, "%s", detail);
    S->st = sim::stats();
    const std::vector<uint32_t>& t = sim::decision_trace();
    S->ntrace = (uint32_t)std::min<size_t>(t.size(), 1 << 16);
    if (S->ntrace) memcpy(S->trace, t.data(), S->ntrace * sizeof(uint32_t));
    S->finished = 2;
    _exit(status == RS_DEADLOCK ? 91 : 92);
}

// ------------------------------------------------------------------ libc wrappers (only act inside SUT code)
extern "C" {
void __real_exit(int) __attribute__((noreturn));
FILE* __real_fopen(const char*, const char*);
int __real_fclose(FILE*);
int __real_remove(const char*);
int __real_unlink(const char*);
int __real_rename(const char*, const char*);
int __real_open(const char*, int, ...);
int __real_openat(int, const char*, int, ...);
int __real_creat(const char*, mode_t);
int __real_mkdir(const char*, mode_t);
int __real_rmdir(const char*);
int __real_truncate(const char*, off_t);
int __real_ftruncate(int, off_t);
int __real_link(const char*, const char*);
int __real_symlink(const char*, const char*);
int __real_chdir(const char*);
FILE* __real_freopen(const char*, const char*, FILE*);
FILE* __real_tmpfile(void);
int __real_system(const char*);
FILE* __real_popen(const char*, const char*);
long __real_sysconf(int);
int __real_unlinkat(int, const char*, int);
int __real_renameat(int, const char*, int, const char*);

static int g_ncpu = 4;
static FILE* g_ds_file = nullptr;   // the stream of the external data segment file, once opened for writing
void __wrap_exit(int code) {
    if (sim::in_sut() && S) { S->via_exit = 1; child_finish(code); }
    __real_exit(code);
}
FILE* __wrap_fopen(const char* path, const char* mode) {
    if (!sim::in_sut() || !sim::active()) return __real_fopen(path, mode);
    bool w = strpbrk(mode, "wa+") != nullptr;
    sim::yield(Y_IO, 1);
    if (w) {
        S->fopen_w++;
        monitor_write("fopen", path);
        int e = fault_for("fopen");
        if (e) { S->io_faults++; count_fault(e == EMFILE ? F_EMFILE : e == ENOSPC ? F_ENOSPC : F_EIO); errno = e; return nullptr; }
    } else S->fopen_r++;
    FILE* fp = __real_fopen(path, mode);
    if (w && fp) { const char* b = strrchr(path, '/'); b = b ? b + 1 : path; if (!strcmp(b, "datasegments")) g_ds_file = fp; }
    return fp;
}
// a read that delivers less than the file size announced (I/O error in the middle, file shrank, size over-reported): the translator has to
// give up with a diagnostic, not parse a partly filled or already released buffer
extern "C" size_t __real_fread(void*, size_t, size_t, FILE*);
extern "C" size_t __wrap_fread(void* buf, size_t sz, size_t n, FILE* f) {
    if (!sim::in_sut() || !sim::active()) return __real_fread(buf, sz, n, f);
    int e = fault_for("fread");
    if (!e) return __real_fread(buf, sz, n, f);
    S->io_faults++; count_fault(F_SHORT_READ);
    size_t total = sz * n, give = total > 1 ? total / 2 : 0;
    size_t got = give ? __real_fread(buf, 1, give, f) : 0;
    errno = e;
    return sz ? got / sz : 0;
}
// a write that transfers only part of the request (disk full in the middle, interrupted write): whatever the translator does next, a run
// that reports success must have produced the complete output
extern "C" size_t __real_fwrite(const void*, size_t, size_t, FILE*);
extern "C" size_t __wrap_fwrite(const void* buf, size_t sz, size_t n, FILE* f) {
    // only the stream of the data segment file: that is the one output the translator writes with fwrite itself. (An optimising compiler
    // turns many fputs/fprintf calls into fwrite calls as well; their results are not looked at anywhere in the translator, and a wrapper
    // cannot set the stream's error indicator the way a real failed fputs would - outside what this fault can soundly judge.)
    if (!sim::in_sut() || !sim::active() || f != g_ds_file || !f) return __real_fwrite(buf, sz, n, f);
    int e = fault_for("fwrite");
    if (!e) return __real_fwrite(buf, sz, n, f);
    size_t total = sz * n; if (total < 2) return __real_fwrite(buf, sz, n, f);
    S->io_faults++; count_fault(F_SHORT_WRITE);
    size_t got = __real_fwrite(buf, 1, total / 2, f);
    errno = e;
    return sz ? got / sz : 0;
}
int __wrap_fclose(FILE* f) {
    if (!sim::in_sut() || !sim::active()) return __real_fclose(f);
    sim::yield(Y_IO, 2);
    int e = fault_for("fclose");
    int rc = __real_fclose(f);
    if (e) { S->io_faults++; count_fault(F_FCLOSE_FAIL); errno = e; return EOF; }
    return rc;
}
int __wrap_remove(const char* p) { if (sim::in_sut() && sim::active()) { S->removes++; monitor_delete("remove", p); } return __real_remove(p); }
int __wrap_unlink(const char* p) { if (sim::in_sut() && sim::active()) { S->removes++; monitor_delete("unlink", p); } return __real_unlink(p); }
int __wrap_unlinkat(int d, const char* p, int fl) { if (sim::in_sut() && sim::active()) { monitor_refuse("unlinkat", p); errno = EPERM; return -1; } return __real_unlinkat(d, p, fl); }
int __wrap_rename(const char* a, const char* b) { if (sim::in_sut() && sim::active()) { monitor_refuse("rename", a); errno = EPERM; return -1; } return __real_rename(a, b); }
int __wrap_renameat(int d1, const char* a, int d2, const char* b) { if (sim::in_sut() && sim::active()) { monitor_refuse("renameat", a); errno = EPERM; return -1; } return __real_renameat(d1, a, d2, b); }
int __wrap_open(const char* p, int fl, ...) {
    mode_t m = 0; if (fl & (O_CREAT | O_TMPFILE)) { va_list ap; va_start(ap, fl); m = (mode_t)va_arg(ap, int); va_end(ap); }
    if (sim::in_sut() && sim::active() && (fl & (O_WRONLY | O_RDWR | O_CREAT | O_TRUNC | O_APPEND))) monitor_write("open", p);
    return __real_open(p, fl, m);
}
int __wrap_openat(int d, const char* p, int fl, ...) {
    mode_t m = 0; if (fl & (O_CREAT | O_TMPFILE)) { va_list ap; va_start(ap, fl); m = (mode_t)va_arg(ap, int); va_end(ap); }
    if (sim::in_sut() && sim::active() && (fl & (O_WRONLY | O_RDWR | O_CREAT | O_TRUNC | O_APPEND))) { if (d == AT_FDCWD || (p && p[0] == '/')) monitor_write("openat", p); else monitor_refuse("openat", p); }
    return __real_openat(d, p, fl, m);
}
int __wrap_creat(const char* p, mode_t m) { if (sim::in_sut() && sim::active()) monitor_write("creat", p); return __real_creat(p, m); }
int __wrap_mkdir(const char* p, mode_t m) { if (sim::in_sut() && sim::active()) { monitor_refuse("mkdir", p); errno = EPERM; return -1; } return __real_mkdir(p, m); }
int __wrap_rmdir(const char* p) { if (sim::in_sut() && sim::active()) { monitor_refuse("rmdir", p); errno = EPERM; return -1; } return __real_rmdir(p); }
int __wrap_truncate(const char* p, off_t n) { if (sim::in_sut() && sim::active()) { monitor_refuse("truncate", p); errno = EPERM; return -1; } return __real_truncate(p, n); }
int __wrap_ftruncate(int fd, off_t n) { if (sim::in_sut() && sim::active()) { monitor_refuse("ftruncate", nullptr); errno = EPERM; return -1; } return __real_ftruncate(fd, n); }
int __wrap_link(const char* a, const char* b) { if (sim::in_sut() && sim::active()) { monitor_refuse("link", b); errno = EPERM; return -1; } return __real_link(a, b); }
int __wrap_symlink(const char* a, const char* b) { if (sim::in_sut() && sim::active()) { monitor_refuse("symlink", b); errno = EPERM; return -1; } return __real_symlink(a, b); }
int __wrap_chdir(const char* p) { if (sim::in_sut() && sim::active()) log_event("chdir"); return __real_chdir(p); }
FILE* __wrap_freopen(const char* p, const char* m, FILE* f) { if (sim::in_sut() && sim::active() && p) monitor_write("freopen", p); return __real_freopen(p, m, f); }
FILE* __wrap_tmpfile(void) { if (sim::in_sut() && sim::active()) { monitor_refuse("tmpfile", nullptr); errno = EPERM; return nullptr; } return __real_tmpfile(); }
int __wrap_system(const char* c) { if (sim::in_sut() && sim::active()) { monitor_refuse("system", nullptr); return -1; } return __real_system(c); }
FILE* __wrap_popen(const char* c, const char* m) { if (sim::in_sut() && sim::active()) { monitor_refuse("popen", nullptr); errno = EPERM; return nullptr; } return __real_popen(c, m); }
long __wrap_sysconf(int name) { if (sim::in_sut() && sim::active() && name == _SC_NPROCESSORS_ONLN) return g_ncpu; return __real_sysconf(name); }
}

// ------------------------------------------------------------------ helpers
static uint64_t hash_file(const std::string& path, long* size_out = nullptr) {
    FILE* f = __real_fopen(path.c_str(), "rb"); if (!f) return 0;
    uint64_t h = FNV_INIT; unsigned char buf[65536]; size_t n; long sz = 0;
    while ((n = fread(buf, 1, sizeof buf, f)) > 0) { for (size_t i = 0; i < n; i++) { h ^= buf[i]; h *= 0x100000001b3ull; } sz += (long)n; }
    __real_fclose(f); if (size_out) *size_out = sz;
    return h ? h : 1;
}
struct Node { char type; long size; uint64_t hash; };
static void snapshot(const std::string& dir, const std::string& rel, std::map<std::string, Node>& out) {
    DIR* d = opendir(dir.c_str()); if (!d) return;
    std::vector<std::string> names;
    while (dirent* e = readdir(d)) { std::string n = e->d_name; if (n != "." && n != "..") names.push_back(n); }
    closedir(d);
    std::sort(names.begin(), names.end());
    for (auto& n : names) {
        std::string p = dir + "/" + n, r = rel.empty() ? n : rel + "/" + n;
        struct stat st; if (lstat(p.c_str(), &st) != 0) continue;
        if (S_ISDIR(st.st_mode)) { out[r] = Node{'d', 0, 0}; snapshot(p, r, out); }
        else { Node nd; nd.type = 'f'; nd.hash = hash_file(p, &nd.size); out[r] = nd; }
    }
}
static void rm_rf(const std::string& p) {
    DIR* d = opendir(p.c_str());
    if (d) { while (dirent* e = readdir(d)) { std::string n = e->d_name; if (n == "." || n == "..") continue; std::string c = p + "/" + n; struct stat st; if (lstat(c.c_str(), &st) == 0 && S_ISDIR(st.st_mode)) rm_rf(c); else __real_unlink(c.c_str()); } closedir(d); __real_rmdir(p.c_str()); }
    else __real_unlink(p.c_str());
}
static void mkdirs(const std::string& p) { for (size_t i = 1; i <= p.size(); i++) if (i == p.size() || p[i] == '/') __real_mkdir(p.substr(0, i).c_str(), 0755); }
static bool copy_file(const std::string& from, const std::string& to, long limit = -1) {
    FILE* a = __real_fopen(from.c_str(), "rb"); if (!a) return false;
    FILE* b = __real_fopen(to.c_str(), "wb"); if (!b) { __real_fclose(a); return false; }
    char buf[65536]; size_t n; long left = limit;
    while ((n = fread(buf, 1, sizeof buf, a)) > 0) { if (limit >= 0) { if ((long)n > left) n = (size_t)left; left -= (long)n; } if (n) fwrite(buf, 1, n, b); if (limit >= 0 && left == 0) break; }
    __real_fclose(a); __real_fclose(b); return true;
}
static long file_size(const std::string& p) { struct stat st; return stat(p.c_str(), &st) == 0 ? (long)st.st_size : -1; }

// ------------------------------------------------------------------ plan text
static std::string plan_to_text(const Plan& p, const std::vector<uint32_t>* trace) {
    std::ostringstream o;
    o << "engine E2\nproperty " << p.prop << "\nseed " << p.seed << "\n";
    o << "config policy=" << p.policy << " switch_prob=" << p.switch_prob << " pct_depth=" << p.pct_depth << " mem_mean=" << p.mem_mean
      << " spurious=" << p.spurious << " ncpu=" << p.ncpu << " tcfail=" << p.tcfail << " trunc=" << p.trunc << " libc_every=" << p.libc_every << " shape=" << p.shape << " input_in_outdir=" << (p.input_in_outdir ? 1 : 0) << " out_symlink=" << (p.out_symlink ? 1 : 0)
      << " nfuncs=" << p.nfuncs << " gseed=" << p.gseed << "\n";
    o << "module " << p.module << "\n";
    if (!p.ref.empty()) o << "ref " << p.ref << "\n";
    if (!p.changed.empty()) o << "changed " << p.changed << "\n";
    for (auto& a : p.args) { o << "arg"; for (auto& s : a) o << " " << s; o << "\n"; }
    for (auto& d : p.decoys) o << "file " << d.kind << " " << d.rel << "\n";
    for (auto& f : p.faults) o << "fault " << f.call << " " << f.nth << " " << f.err << "\n";
    const std::vector<uint32_t>& s = trace ? *trace : p.sched;
    if (!s.empty()) { o << "sched"; for (uint32_t v : s) o << " " << v; o << "\n"; }
    o << "end\n";
    return o.str();
}
static bool plan_from_text(const std::string& text, Plan& p) {
    std::istringstream in(text); std::string line;
    while (std::getline(in, line)) {
        size_t h = line.find('#'); if (h == 0) continue;
        std::istringstream ls(line); std::string w; if (!(ls >> w)) continue;
        if (w == "property") ls >> p.prop; else if (w == "seed") ls >> p.seed;
        else if (w == "config") { std::string kv; while (ls >> kv) { size_t e = kv.find('='); if (e == std::string::npos) continue; std::string k = kv.substr(0, e), v = kv.substr(e + 1);
            if (k == "policy") p.policy = atoi(v.c_str()); else if (k == "switch_prob") p.switch_prob = atof(v.c_str()); else if (k == "pct_depth") p.pct_depth = atoi(v.c_str());
            else if (k == "mem_mean") p.mem_mean = (uint32_t)strtoul(v.c_str(), 0, 10); else if (k == "spurious") p.spurious = atof(v.c_str()); else if (k == "ncpu") p.ncpu = atoi(v.c_str());
            else if (k == "tcfail") p.tcfail = atof(v.c_str()); else if (k == "trunc") p.trunc = atol(v.c_str()); else if (k == "shape") p.shape = atoi(v.c_str()); else if (k == "libc_every") p.libc_every = (uint32_t)atoi(v.c_str());
            else if (k == "input_in_outdir") p.input_in_outdir = atoi(v.c_str()) != 0; else if (k == "out_symlink") p.out_symlink = atoi(v.c_str()) != 0; else if (k == "nfuncs") p.nfuncs = atoi(v.c_str()); else if (k == "gseed") p.gseed = strtoull(v.c_str(), 0, 10); } }
        else if (w == "module") ls >> p.module; else if (w == "ref") ls >> p.ref; else if (w == "changed") ls >> p.changed;
        else if (w == "arg") { std::vector<std::string> a; std::string s; while (ls >> s) a.push_back(s); if (!a.empty()) p.args.push_back(a); }
        else if (w == "file") { FileSpec f; ls >> f.kind; std::getline(ls, f.rel); while (!f.rel.empty() && f.rel[0] == ' ') f.rel.erase(0, 1); p.decoys.push_back(f); }
        else if (w == "fault") { IoFault f; ls >> f.call >> f.nth >> f.err; p.faults.push_back(f); }
        else if (w == "sched") { uint32_t v; while (ls >> v) p.sched.push_back(v); }
    }
    return !p.prop.empty() && !p.module.empty();
}

// ------------------------------------------------------------------ plan generation
struct CorpusEntry { std::string wasm, ref; int nfuncs; long size; std::string changed; };
static std::vector<CorpusEntry> g_corpus;
static void load_corpus() {
    FILE* f = fopen((g_corpus_dir + (g_sweep ? "/sweep.txt" : "/corpus.txt")).c_str(), "r"); if (!f) { fprintf(stderr, "simxl: no corpus at %s\n", g_corpus_dir.c_str()); _exit(96); }
    char a[512], b[512], c[4096]; int n; long sz;
    while (fscanf(f, "%511s %511s %d %ld %4095s", a, b, &n, &sz, c) == 5) { CorpusEntry e; e.wasm = a[0] == '/' ? a : g_corpus_dir + "/" + a; e.ref = std::string(b) == "-" ? "" : (b[0] == '/' ? b : g_corpus_dir + "/" + b); e.nfuncs = n; e.size = sz; e.changed = c; g_corpus.push_back(e); }
    fclose(f);
}
static bool has_opt(const Plan& p, const char* o) { for (auto& a : p.args) if (a[0] == o) return true; return false; }
static std::string opt_val(const Plan& p, const char* o) { for (auto& a : p.args) if (a[0] == o && a.size() > 1) return a[1]; return ""; }

static const char* DECOY_NAMES[][2] = {
    {"s123456789.c", "nine-digits"}, {"s12345678901.c", "eleven-digits"}, {"x0000000000.c", "wrong-prefix-x"}, {"S0000000000.c", "uppercase-prefix"},
    {"s00000000a0.c", "non-digit-inside"}, {"s0000000000.h", "header-ext"}, {"s0000000000.c~", "backup-suffix"}, {".s0000000000.c", "dot-prefix"},
    {"d0000000000.C", "uppercase-ext"}, {"d3drenderer.c", "digit-then-letters"}, {"s+000000001.c", "sign-char"}, {"s 000000001.c", "space-char"},
    {"s0000000000xc", "no-dot"}, {"s0000000007.c", "stale-impl-s"}, {"d0000000003.c", "stale-impl-d"}, {"s4294967295.c", "stale-impl-max"},
    {"notes.txt", "user-file"}, {"main.c", "user-c-file"}, {"s0000000001.cc", "cc-ext"}, {"t0000000001.c", "wrong-prefix-t"},
    {"d000000000١.c", "non-ascii-digit"}, {"s00000000001.c", "eleven-digits-b"}, {"sabcdefghij.c", "letters"}, {"datasegments", "datasegments-file"},
};
static const int N_DECOYS = (int)(sizeof DECOY_NAMES / sizeof DECOY_NAMES[0]);

static std::string outpath_for(const Plan& p, const std::string& root) {
    switch (p.shape) {
        case 0: return "a.c";
        case 1: return "./out/a.c";
        case 2: return "out/sub/deep.name.c";
        case 3: return root + "/abs/o.c";
        case 4: return "out/noext";
        case 5: return "out/s0000000001.c";
        case 6: return "out//dd/../dd/x.y.c";
        case 8: return "./noext2";                 // no extension, but a dot earlier in the path
        case 9: return "out.d/module";
        case 10: return "out/../out/mod";
        case 11: return "gen[12]/out.c";           // directory names that are glob patterns (C20 only), with sibling directories they match
        case 12: return "build*/o.c";
        case 13: return root + "/abs/v?/m.c";
        case 14: return "o/m.c";                   // a directory name of one character
        case 15: return "./o/x/m.c";
        default: return "out/a.c";
    }
}

// offsets at which a module file can be cut "between" sections: right in front of a section id, after the id, after its size field
static const std::vector<long>& section_cuts(const std::string& path) {
    static std::map<std::string, std::vector<long>> cache;
    auto it = cache.find(path); if (it != cache.end()) return it->second;
    std::vector<long>& v = cache[path];
    FILE* f = __real_fopen(path.c_str(), "rb"); if (!f) return v;
    std::vector<unsigned char> b; unsigned char buf[65536]; size_t n; while ((n = fread(buf, 1, sizeof buf, f)) > 0) b.insert(b.end(), buf, buf + n); __real_fclose(f);
    size_t i = 8;
    while (i < b.size()) {
        v.push_back((long)i); v.push_back((long)i + 1);
        size_t j = i + 1; uint64_t len = 0; int sh = 0;
        while (j < b.size()) { unsigned char c = b[j++]; len |= (uint64_t)(c & 0x7F) << sh; sh += 7; if (!(c & 0x80)) break; }
        v.push_back((long)j);
        if (len > b.size()) break;
        i = j + (size_t)len;
    }
    return v;
}

static Plan make_plan(const std::string& prop, uint64_t root, uint64_t idx, bool c10_enum) {
    Plan p; p.prop = prop;
    uint64_t gid = g_sweep ? idx + 0x5EE9000000ull : c10_enum ? idx / 4096 : idx / 128;
    p.gseed = mix64(root, mix64(gid, 0xE2));
    p.seed = mix64(root, mix64(idx, 0xE2E2));
    Rng g; g.seed(p.gseed);       // group stream: module, options, paths, decoys
    Rng r; r.seed(p.seed);        // run stream: schedule knobs, faults, truncation
    uint32_t pick = g.below((uint32_t)g_corpus.size());
    const CorpusEntry& ce = g_corpus[g_sweep ? (size_t)(idx % g_corpus.size()) : pick];
    p.module = ce.wasm; p.nfuncs = ce.nfuncs;
    // options
    int nf = ce.nfuncs;
    if (g.below(10) < 8) { uint32_t t; uint32_t k = g.below(20); t = k < 12 ? 1 + g.below(8) : k < 14 ? 16 : k < 15 ? 64 : k < 18 ? 2 : 1; p.args.push_back({"-t", std::to_string(t)}); }
    p.ncpu = 1 + (int)g.below(8);
    if (g.below(10) < 7) { uint32_t f = g.below(4) == 0 ? (uint32_t)(nf + 1) : g.below(5) == 0 ? 0 : 1 + g.below((uint32_t)std::max(1, nf)); p.args.push_back({"-f", std::to_string(f)}); }
    if (g.below(3) == 0) p.args.push_back({"-p"});
    if (g.below(3) == 0) p.args.push_back({"-g"});
    if (g.below(4) == 0) p.args.push_back({"-m"});
    if (g.below(4) == 0) p.args.push_back({"-d", g.below(4) ? "gnu-ld" : (g.below(2) ? "sectcreate1" : "sectcreate2")});
    else if (g.below(6) == 0) p.args.push_back({"-d", "arrays"});
    if (!ce.ref.empty() && g.below(3) == 0) { p.ref = g.below(5) == 0 ? ce.wasm : ce.ref; p.changed = ce.changed; }
    // the pinned "abyss" module (150000 nesting levels) runs with default options: pretty printing would emit output quadratic in the depth
    if (ce.wasm.size() >= 9 && ce.wasm.compare(ce.wasm.size() - 9, 9, "m905.wasm") == 0) p.args.clear();
    // m906 (2500 and 5000 levels): no pretty printing for the same reason
    if (ce.wasm.size() >= 9 && ce.wasm.compare(ce.wasm.size() - 9, 9, "m906.wasm") == 0) { std::vector<std::vector<std::string>> a2; for (auto& a : p.args) if (a[0] != "-p") a2.push_back(a); p.args = a2; }
    if (prop == "C20" ? g.below(2) == 0 : g.below(5) == 0) p.args.push_back({"-c"});
    p.shape = (int)g.below(prop == "C20" ? 16 : 11);
    if (prop != "C20" && p.shape == 5) p.shape = 7;   // an output named like an implementation file collides with it: only meaningful for C20
    p.input_in_outdir = g.below(5) == 0;
    if (prop == "C20" && p.shape != 5) p.out_symlink = g.below(8) == 0;
    // decoys
    int nd = prop == "C20" ? 4 + (int)g.below(10) : (int)g.below(4);
    for (int i = 0; i < nd; i++) {
        int k = (int)g.below((uint32_t)N_DECOYS);
        const char* where[] = {"@out", "@out", "@out", "@work", "@in", "@other"};
        std::string w = where[g.below(6)];
        FileSpec f; f.rel = w + "/" + DECOY_NAMES[k][0]; f.kind = std::string(DECOY_NAMES[k][1]) + (w == "@out" ? "" : "-outside");
        bool dup = false; for (auto& d : p.decoys) if (d.rel == f.rel) dup = true;
        if (!dup) p.decoys.push_back(f);
    }
    if (p.shape >= 11 && p.shape <= 13) {
        static const char* sib[3][3] = {{"@work/gen1/", "@work/gen2/", "@work/gen/"}, {"@work/buildX/", "@work/build/", "@work/build.old/"}, {"@abs/v1/", "@abs/vv/", "@abs/v/"}};
        static const char* names[] = {"s0000000007.c", "d0000000003.c", "s0000000000.c", "notes.txt"};
        for (int k = 0; k < 3; k++) for (int n = 0; n < 4; n++) if (g.below(3) != 0) { FileSpec f; f.rel = std::string(sib[p.shape - 11][k]) + names[n]; f.kind = n < 3 ? "stale-impl-in-sibling-dir-matching-glob" : "user-file-in-sibling-dir"; p.decoys.push_back(f); }
    }
    if (prop == "C20" && g.below(4) == 0) { FileSpec f; f.rel = "@out/s0000000002.c/"; f.kind = "directory-with-impl-name"; p.decoys.push_back(f); }
    // run-level knobs
    p.policy = r.below(3) == 0 ? 1 : 0;
    static const double sp[] = {0.01, 0.03, 0.1, 0.3, 0.5};
    p.switch_prob = sp[r.below(5)];
    p.pct_depth = 1 + (int)r.below(3);
    static const uint32_t mm[] = {0, 50, 300, 2000, 20000};
    p.mem_mean = mm[r.below(5)];
    if (g_sweep) p.mem_mean = r.below(2) ? 0 : 20000;       // the sweep is about breadth over modules (some of them huge), not about schedules
    p.spurious = r.below(2) ? 0 : (r.below(2) ? 0.02 : 0.2);
    { static const uint32_t le[] = {0, 1, 1, 2, 5}; p.libc_every = le[(p.seed >> 40) % 5]; if (g_sweep) p.libc_every = 0; }
    if (prop == "C10" && !g_sweep) {
        long sz = ce.size;
        if (c10_enum) { long k = (long)(idx % 4096); p.trunc = (k == 0) ? -1 : (k < sz ? k : -2); }
        else if (r.below(4) != 0 && sz > 1) {
            p.trunc = r.below(3) == 0 ? (long)r.below((uint32_t)std::min<long>(sz, 64)) + 1 : 1 + (long)r.below((uint32_t)(sz - 1));
            // a third of the truncated runs cut exactly at a section boundary (a prefix that ends with complete sections parses furthest)
            if (r.below(3) == 0) { const std::vector<long>& cuts = section_cuts(ce.wasm); if (!cuts.empty()) p.trunc = cuts[r.below((uint32_t)cuts.size())]; }
            if (p.trunc >= sz) p.trunc = sz - 1;
            if (p.trunc < 1) p.trunc = 1;
        }
    }
    if (prop == "C10" && !g_sweep && p.trunc < 0 && r.below(3) == 0) {
        // an output file that cannot be opened or whose close fails: the run may fail, it must stay memory-safe
        IoFault f; uint32_t c3 = r.below(5); f.call = c3 < 2 ? "fopen" : c3 < 4 ? "fclose" : "fread"; f.nth = f.call == "fread" ? 1 + (int)r.below(2) : 1 + (int)r.below(12); static const int errs[] = {ENOSPC, EMFILE, EIO, EACCES}; f.err = f.call == "fread" ? EIO : errs[r.below(4)];
        p.faults.push_back(f);
    }
    if (prop == "C20" && r.below(3) == 0) {
        IoFault f; f.call = r.below(3) ? "fopen" : "fclose"; f.nth = 1 + (int)r.below(6); static const int errs[] = {ENOSPC, EMFILE, EIO, EACCES}; f.err = errs[r.below(4)];
        p.faults.push_back(f);
    }
    if (prop == "C10" && !g_sweep && p.trunc < 0 && p.faults.empty() && r.below(6) == 0) p.tcfail = r.below(2) ? 0.2 : 0.7;   // worker threads that cannot be created: failing is fine, hanging or crashing is not
    if (prop == "C09" && r.below(12) == 0) p.tcfail = r.below(2) ? 0.2 : 0.7;
    else if (prop == "C09" && r.below(8) == 0) {
        // an output (or input) file that cannot be opened / closed: the run may fail, but it must not report success with an incomplete output set
        IoFault f; f.call = r.below(4) ? "fopen" : "fclose"; f.nth = 1 + (int)r.below(12); static const int errs[] = {ENOSPC, EMFILE, EIO, EACCES}; f.err = errs[r.below(4)];
        // the data segment file of the external embedding modes is the one output written with fwrite
        bool ext = false; for (auto& a : p.args) if (a[0] == "-d" && a.size() > 1 && a[1] != "arrays") ext = true;
        if (ext && r.below(2)) { f.call = "fwrite"; f.nth = 1 + (int)r.below(3); f.err = r.below(2) ? ENOSPC : EINTR; }
        p.faults.push_back(f);
    }
    return p;
}

// ------------------------------------------------------------------ running one translator invocation in a child
struct RunOut {
    int status = 0;            // raw wait status
    int exit_code = -1; int sig = 0; bool finished = false; int fin_kind = 0;
    Stats st; std::vector<uint32_t> trace; std::vector<std::string> viols;
    std::string stderr_tail; long stderr_size = 0; std::string fatal;
    std::map<std::string, Node> before, after;
    uint64_t fopen_w = 0, removes = 0, io_faults = 0;
    std::string root, outdir, outbase, hdrbase, link_target;
    uint64_t out_hash = 0; std::vector<std::string> out_names; std::map<std::string, uint64_t> out_files;
    std::map<std::string, std::string> kinds;   // abs -> kind
    long dyn = -1, tot = -1;
    std::string static_text;      // contents of the s*.c files (canonical runs with a reference module)
};

static std::string header_name(const std::string& base) {
    size_t d = base.rfind('.');
    return (d == std::string::npos ? base : base.substr(0, d)) + ".h";
}

static void run_translator(const Plan& p, bool canonical, RunOut& o) {
    static int counter = 0;
    char rootbuf[256]; snprintf(rootbuf, sizeof rootbuf, "%s/verif-e2-%07d/r%d", g_scratch_base.c_str(), (int)getpid(), counter++ % 4);
    std::string root = rootbuf; o.root = root;
    rm_rf(root);
    mkdirs(root + "/in"); mkdirs(root + "/work"); mkdirs(root + "/other"); mkdirs(root + "/abs");
    std::string outrel = outpath_for(p, root);
    std::string work = root + "/work";
    std::string outabs = outrel[0] == '/' ? outrel : work + "/" + outrel;
    // normalise by hand (the directory may not exist yet)
    {
        std::vector<std::string> parts; std::string cur;
        for (size_t i = 0; i <= outabs.size(); i++) { if (i == outabs.size() || outabs[i] == '/') { if (cur == "..") { if (!parts.empty()) parts.pop_back(); } else if (!cur.empty() && cur != ".") parts.push_back(cur); cur.clear(); } else cur += outabs[i]; }
        outabs.clear(); for (auto& s : parts) outabs += "/" + s;
    }
    std::string outdir, outbase; split_path(outabs, &outdir, &outbase);
    mkdirs(outdir);
    if (p.shape == 6) mkdirs(work + "/out/dd");
    o.outdir = outdir; o.outbase = outbase; o.hdrbase = header_name(outbase);
    std::string indir = p.input_in_outdir ? outdir : root + "/in";
    std::string modpath = indir + "/mod-ule.1.wasm", refpath;
    long msize = file_size(p.module);
    copy_file(p.module, modpath, p.trunc >= 0 ? std::min(p.trunc, msize) : -1);
    o.kinds[modpath] = "input-module";
    if (!p.ref.empty()) { refpath = indir + "/reference.wasm"; copy_file(p.ref, refpath); o.kinds[refpath] = "reference-module"; }
    for (auto& d : p.decoys) {
        std::string rel = d.rel; std::string base;
        if (rel.compare(0, 5, "@out/") == 0) base = outdir + "/" + rel.substr(5);
        else if (rel.compare(0, 6, "@work/") == 0) base = work + "/" + rel.substr(6);
        else if (rel.compare(0, 4, "@in/") == 0) base = root + "/in/" + rel.substr(4);
        else if (rel.compare(0, 7, "@other/") == 0) base = root + "/other/" + rel.substr(7);
        else if (rel.compare(0, 5, "@abs/") == 0) base = root + "/abs/" + rel.substr(5);
        else continue;
        if (!base.empty() && base.back() == '/') { base.pop_back(); mkdirs(base); FILE* f = __real_fopen((base + "/inner.c").c_str(), "w"); if (f) { fputs("inner\n", f); __real_fclose(f); } o.kinds[base + "/inner.c"] = d.kind; o.kinds[base] = d.kind; continue; }
        { std::string pd, pb; split_path(base, &pd, &pb); mkdirs(pd); }
        FILE* f = __real_fopen(base.c_str(), "w"); if (f) { fprintf(f, "decoy %s %s\n", d.kind.c_str(), d.rel.c_str()); __real_fclose(f); }
        o.kinds[base] = d.kind;
    }
    if (p.out_symlink) {
        // the output file is a symbolic link into another directory (a shared or versioned store): writing through the link is what the
        // output path names; everything else still belongs into the directory the path names
        std::string ld = root + "/other/linked"; mkdirs(ld);
        o.link_target = ld + "/target.c";
        const char* extra[] = {"s0000000007.c", "d0000000003.c", "main.c"};
        for (const char* n : extra) { FILE* f = __real_fopen((ld + "/" + n).c_str(), "w"); if (f) { fputs("file next to the link target\n", f); __real_fclose(f); } o.kinds[ld + "/" + n] = std::string("in-link-target-dir:") + (is_impl_name(n) ? "impl-name" : "user-file"); }
        { FILE* f = __real_fopen((ld + "/" + o.hdrbase).c_str(), "w"); if (f) { fputs("header-named file next to the link target\n", f); __real_fclose(f); } o.kinds[ld + "/" + o.hdrbase] = "in-link-target-dir:header-name"; }
        { FILE* f = __real_fopen(o.link_target.c_str(), "w"); if (f) { fputs("previous output\n", f); __real_fclose(f); } o.kinds[o.link_target] = "link-target"; }
        __real_unlink(outabs.c_str());
        if (__real_symlink(o.link_target.c_str(), outabs.c_str()) != 0) o.link_target.clear();
    }
    snapshot(root, "", o.before);

    // argv
    std::vector<std::string> av; av.push_back("w2c2");
    for (auto& a : p.args) {
        if (canonical && a[0] == "-t") continue;
        for (auto& s : a) av.push_back(s);
    }
    if (canonical && !g_no_t_option) { av.push_back("-t"); av.push_back("1"); }   // the build without pthreads has no -t option
    if (!refpath.empty()) { av.push_back("-r"); av.push_back(refpath); }
    // module path: relative to work when possible
    std::string modarg = modpath;
    if (!p.input_in_outdir && (p.gseed & 1)) modarg = "../in/mod-ule.1.wasm";
    av.push_back(modarg); av.push_back(outrel);

    memset(S, 0, sizeof(Shared));
    std::string errfile = root + "/../stderr-" + std::to_string((int)getpid()) + ".txt";
    fflush(nullptr);
    pid_t pid = fork();
    if (pid == 0) {
        // ---------------- child
        alarm(30);
        if (__real_chdir(work.c_str()) != 0) _exit(95);
        int efd = __real_open(errfile.c_str(), O_WRONLY | O_CREAT | O_TRUNC, 0644);
        if (efd >= 0) { dup2(efd, 2); close(efd); }
        int nfd = __real_open("/dev/null", O_WRONLY); if (nfd >= 0) { dup2(nfd, 1); close(nfd); }
        ChildCtx ctx; ctx.root = root; ctx.outdir = outdir; ctx.outbase = outbase; ctx.hdrbase = o.hdrbase; ctx.module_path = modpath; ctx.ref_path = refpath;
        ctx.clean = has_opt(p, "-c"); std::string dm = opt_val(p, "-d"); ctx.extdata = !dm.empty() && dm != "arrays";
        if (!canonical) ctx.faults = p.faults;
        C = &ctx; g_kinds = &o.kinds; g_ncpu = p.ncpu;
        std::vector<char*> argv; for (auto& s : av) argv.push_back((char*)s.c_str()); argv.push_back(nullptr);
        Config cfg; cfg.seed = p.seed; cfg.max_steps = 4000000; cfg.tick_ns = 1000;
        cfg.task_stack_bytes = 64ull << 20;      // worker threads of the real translator have the process default (8 MB) with frames several times smaller than the instrumented ones
        if (canonical) { cfg.policy = 0; cfg.switch_prob = 0; cfg.mem_mean = 0; cfg.spurious_prob = 0; cfg.timer_prob = 0; sim::set_replay_trace(std::vector<uint32_t>()); }
        else {
            cfg.policy = p.policy; cfg.switch_prob = p.switch_prob; cfg.pct_depth = p.pct_depth; cfg.pct_horizon = 3000; cfg.mem_mean = p.mem_mean; cfg.spurious_prob = p.spurious; cfg.timer_prob = 0;
            cfg.libc_point_every = p.libc_every;
            if (p.tcfail > 0) { cfg.thread_create_faults = true; cfg.thread_create_fail_prob = p.tcfail; }
            sim::set_replay_trace(p.sched);
        }
        sim::begin(cfg, child_fatal);
        sim::sut_enter();
        int rc = w2c2_main((int)av.size(), argv.data());
        sim::sut_leave();
        child_finish(rc);
    }
    int st = 0; while (waitpid(pid, &st, 0) < 0 && errno == EINTR) {}
    o.status = st;
    if (WIFEXITED(st)) o.exit_code = WEXITSTATUS(st); else if (WIFSIGNALED(st)) o.sig = WTERMSIG(st);
    o.finished = S->finished == 1; o.fin_kind = S->finished; o.st = S->st; o.fatal = S->fatal;
    o.trace.assign(S->trace, S->trace + S->ntrace);
    for (uint32_t i = 0; i < S->nviol; i++) o.viols.push_back(S->viol[i]);
    o.fopen_w = S->fopen_w; o.removes = S->removes; o.io_faults = S->io_faults;
    {
        FILE* f = __real_fopen(errfile.c_str(), "rb");
        if (f) {
            fseek(f, 0, SEEK_END); o.stderr_size = ftell(f);
            // head (where a sanitizer names the error) and tail (innermost diagnostics) of the child's stderr
            char buf[6001]; size_t n;
            if (o.stderr_size > 9000) { fseek(f, 0, SEEK_SET); n = fread(buf, 1, 3000, f); buf[n] = 0; o.stderr_tail = std::string(buf) + "\n[...]\n"; fseek(f, o.stderr_size - 6000, SEEK_SET); n = fread(buf, 1, 6000, f); buf[n] = 0; o.stderr_tail += buf; }
            else { fseek(f, 0, SEEK_SET); std::string all; while ((n = fread(buf, 1, 6000, f)) > 0) { buf[n] = 0; all.append(buf, n); } o.stderr_tail = all; }
            __real_fclose(f);
        }
        // "x of y functions are dynamic"
        f = __real_fopen(errfile.c_str(), "rb");
        if (f) { char line[512]; while (fgets(line, sizeof line, f)) { unsigned long a, b; if (sscanf(line, "w2c2: %lu of %lu functions are dynamic", &a, &b) == 2) { o.dyn = (long)a; o.tot = (long)b; } } __real_fclose(f); }
        __real_unlink(errfile.c_str());
    }
    snapshot(root, "", o.after);
    // output set: files new or changed
    uint64_t h = FNV_INIT;
    for (auto& kv : o.after) {
        if (kv.second.type != 'f') continue;
        auto it = o.before.find(kv.first);
        if (it != o.before.end() && it->second.hash == kv.second.hash && it->second.size == kv.second.size) continue;
        o.out_names.push_back(kv.first); o.out_files[kv.first] = kv.second.hash;
        for (char c : kv.first) { h ^= (unsigned char)c; h *= 0x100000001b3ull; }
        h = fnv_step(h, kv.second.hash);
    }
    o.out_hash = h;
    if (canonical && !p.ref.empty())
        for (auto& n : o.out_names) { std::string abs = root + "/" + n, d, b; split_path(abs, &d, &b); if (d == outdir && is_impl_name(b) && b[0] == 's') { FILE* f = __real_fopen(abs.c_str(), "rb"); if (f) { char buf[65536]; size_t k; while ((k = fread(buf, 1, sizeof buf, f)) > 0) o.static_text.append(buf, k); __real_fclose(f); o.static_text += "\n"; } } }
    if (!g_keep) rm_rf(root);
}

// ------------------------------------------------------------------ oracles
struct Verdict { std::vector<std::string> sigs; std::string detail; bool fail() const { return !sigs.empty(); }
    void set(const std::string& s, const std::string& d) { for (auto& x : sigs) if (x == s) return; if (sigs.empty()) detail = d; sigs.push_back(s); }
    std::string all() const { std::string o; for (auto& x : sigs) o += (o.empty() ? "" : ";") + x; return o; } };

static std::string opts_sig(const Plan& p) {
    std::string s;
    for (auto& a : p.args) { if (a[0] == "-t") { s += std::string(s.empty() ? "" : ":") + (a.size() > 1 && atoi(a[1].c_str()) > 1 ? "-t>1" : "-t1"); continue; } if (a[0] == "-f") { s += std::string(s.empty() ? "" : ":") + "-f"; continue; } s += std::string(s.empty() ? "" : ":") + a[0]; }
    if (!p.ref.empty()) s += std::string(s.empty() ? "" : ":") + "-r";
    return s.empty() ? "default" : s;
}
static std::string san_site(const std::string& err) {
    size_t pos = 0;
    if (err.find("AddressSanitizer: stack-overflow") != std::string::npos) {
        // a stack overflow is named by the function that recurses (most frequent translator frame), not by whatever ran last
        std::map<std::string, int> cnt;
        while ((pos = err.find(" in ", pos)) != std::string::npos) {
            size_t e = err.find('\n', pos); std::string line = err.substr(pos + 4, e == std::string::npos ? std::string::npos : e - pos - 4);
            pos += 4;
            if (line.find("/w2c2/") != std::string::npos && line.find("/verif/") == std::string::npos) cnt[line.substr(0, line.find(' '))]++;
        }
        int bn = 0; for (auto& kv : cnt) bn = std::max(bn, kv.second);
        std::string best = "?"; for (auto& kv : cnt) if (kv.second + 2 >= bn) { best = kv.first; break; }     // mutual recursion: the alphabetically first participant
        return "recursion-in-" + best;
    }
    // first frame in /repo code
    while ((pos = err.find(" in ", pos)) != std::string::npos) {
        size_t e = err.find('\n', pos); std::string line = err.substr(pos + 4, e == std::string::npos ? std::string::npos : e - pos - 4);
        pos += 4;
        if (line.find("/w2c2/") != std::string::npos && line.find("/verif/") == std::string::npos) { size_t sp = line.find(' '); return line.substr(0, sp); }
    }
    return "?";
}
static void crash_oracle(const Plan& p, const RunOut& o, const std::string& P, Verdict& v, bool truncated) {
    std::string ctx = truncated ? "truncated" : "valid";
    // the pinned 150000-level module reproduces a recorded finding; its signature names the input so that no other module's overflow hides behind it
    if (p.module.size() >= 9 && p.module.compare(p.module.size() - 9, 9, "m905.wasm") == 0) ctx += ":pinned-input-m905-150000-nested-blocks";
    if (o.sig == SIGALRM) { v.set(P + "/hang/wall-clock-watchdog:" + ctx, "child killed by the 30 s watchdog: " + plan_to_text(p, nullptr).substr(0, 300)); return; }
    if (o.sig) { v.set(P + "/signal/" + std::to_string(o.sig) + ":" + san_site(o.stderr_tail) + ":" + ctx, "child died with signal " + std::to_string(o.sig) + " stderr: " + o.stderr_tail.substr(0, 1500)); return; }
    if (o.exit_code == 77) {
        std::string kind = "sanitizer"; size_t a = o.stderr_tail.find("ERROR: AddressSanitizer: ");
        if (a != std::string::npos) { size_t e = o.stderr_tail.find_first_of(" \n", a + 25); kind = "asan-" + o.stderr_tail.substr(a + 25, e - a - 25); }
        else if (o.stderr_tail.find("runtime error:") != std::string::npos) kind = "ubsan";
        v.set(P + "/" + kind + "/" + san_site(o.stderr_tail) + ":" + ctx, o.stderr_tail.substr(0, 2500)); return;
    }
    if (o.exit_code == 134 || o.stderr_tail.find("Assertion") != std::string::npos) { v.set(P + "/abort/" + ctx, o.stderr_tail.substr(0, 800)); return; }
    if (o.exit_code == 91) { v.set(P + "/liveness/deadlock:" + ctx, o.fatal); return; }
    if (!truncated) {
        if (o.exit_code != 0 && p.faults.empty() && p.tcfail == 0) v.set(P + "/exit/nonzero-on-valid-module:" + opts_sig(p), "exit status " + std::to_string(o.exit_code) + " stderr: " + o.stderr_tail.substr(0, 800));
    } else {
        if (o.exit_code != 0 && o.exit_code != 92 && o.stderr_size == 0) v.set(P + "/exit/nonzero-without-diagnostic", "exit status " + std::to_string(o.exit_code) + " and empty stderr for a truncated module (k=" + std::to_string(p.trunc) + ")");
    }
}

static void c20_oracle(const Plan& p, const RunOut& o, Verdict& v) {
    for (auto& s : o.viols) v.set(s, "monitor: " + s + " (outdir " + o.outdir.substr(o.root.size()) + ", output " + o.outbase + ")");
    bool clean = has_opt(p, "-c"); std::string dm = opt_val(p, "-d"); bool ext = !dm.empty() && dm != "arrays";
    std::string outrel = o.outdir.size() > o.root.size() ? o.outdir.substr(o.root.size() + 1) : "";
    auto cls = [&](const std::string& rel) { std::string abs = o.root + "/" + rel; auto it = o.kinds.find(abs); if (it != o.kinds.end()) return it->second; std::string d, b; split_path(abs, &d, &b); if (d != o.outdir) return std::string("outside-output-dir"); return std::string(is_impl_name(b) ? "impl-pattern-name" : "other-name-in-output-dir"); };
    for (auto& kv : o.after) {
        auto it = o.before.find(kv.first);
        bool created = it == o.before.end();
        bool modified = !created && kv.second.type == 'f' && (it->second.hash != kv.second.hash || it->second.size != kv.second.size);
        if (!created && !modified) continue;
        std::string abs = o.root + "/" + kv.first, d, b; split_path(abs, &d, &b);
        bool ok = kv.second.type == 'f' && d == o.outdir && (b == o.outbase || b == o.hdrbase || is_impl_name(b) || (ext && b == "datasegments"));
        if (!ok && modified && !o.link_target.empty() && abs == o.link_target) ok = true;     // written through the output file's link
        if (!ok) v.set(std::string("C20/fs/") + (created ? "created:" : "modified:") + cls(kv.first), (created ? "created " : "modified ") + kv.first);
    }
    for (auto& kv : o.before) {
        if (o.after.count(kv.first)) continue;
        std::string abs = o.root + "/" + kv.first, d, b; split_path(abs, &d, &b);
        bool ok = clean && kv.second.type == 'f' && d == o.outdir && is_impl_name(b);
        if (!ok) v.set("C20/fs/deleted:" + cls(kv.first), "deleted " + kv.first + (clean ? " (with -c)" : " (without -c)"));
    }
    // with -c and a successful run, stale implementation files that are not re-created must be gone
    if (clean && o.exit_code == 0 && p.faults.empty())
        for (auto& kv : o.before) {
            std::string abs = o.root + "/" + kv.first, d, b; split_path(abs, &d, &b);
            if (kv.second.type == 'f' && d == o.outdir && is_impl_name(b) && o.after.count(kv.first)) {
                auto& a = o.after.at(kv.first);
                if (a.hash == kv.second.hash && a.size == kv.second.size) v.set("C20/clean/stale-implementation-file-kept:" + cls(kv.first), "-c left " + kv.first + " in place");
            }
        }
}

static std::string file_class(const RunOut& o, const std::string& rel) {
    std::string abs = o.root + "/" + rel, d, b; split_path(abs, &d, &b);
    if (b == o.outbase) return "main"; if (b == o.hdrbase) return "header";
    if (is_impl_name(b)) return b[0] == 's' ? "static-file" : "dynamic-file"; if (b == "datasegments") return "datasegments"; return "other";
}
static void c09_oracle(const Plan& p, const RunOut& canon, const RunOut& o, Verdict& v) {
    // I/O fault configuration: the translator's own reaction to a file it cannot create - a diagnostic followed by abort() - is a failed run, not a crash
    bool deliberate_abort = !p.faults.empty() && (o.sig == SIGABRT || o.exit_code == 134) && o.stderr_tail.find("w2c2: failed to ") != std::string::npos && o.stderr_tail.find("Assertion") == std::string::npos && o.stderr_tail.find("Sanitizer") == std::string::npos;
    if (!deliberate_abort) crash_oracle(p, o, "C09", v, false);
    if (p.tcfail > 0) return;      // fault configuration: only no crash / no hang
    if (v.fail()) return;
    if (!p.faults.empty()) {
        // I/O fault configuration: failing is fine; success must mean the complete canonical output
        if (o.exit_code == 0 && canon.exit_code == 0 && o.out_hash != canon.out_hash) {
            std::string det; std::set<std::string> a(canon.out_names.begin(), canon.out_names.end()), b(o.out_names.begin(), o.out_names.end());
            for (auto& n : a) if (!b.count(n)) det += " missing:" + n; else if (canon.out_files.at(n) != o.out_files.at(n)) det += " differs:" + n;
            v.set("C09/fault/success-reported-with-incomplete-output:" + p.faults[0].call, "exit status 0 although " + std::to_string(o.io_faults) + " injected " + p.faults[0].call + " failure(s) left the output different from the canonical run:" + det);
        }
        return;
    }
    if (canon.exit_code != 0) { v.set("C09/canonical/failed:" + opts_sig(p), "canonical -t 1 run failed: " + canon.stderr_tail.substr(0, 600)); return; }
    if (o.out_hash != canon.out_hash) {
        std::string which = "fileset", det;
        std::set<std::string> a(canon.out_names.begin(), canon.out_names.end()), b(o.out_names.begin(), o.out_names.end());
        if (a == b) { for (auto& n : canon.out_names) if (canon.out_files.at(n) != o.out_files.at(n)) { which = file_class(o, n); det += " " + n; } }
        else { for (auto& n : a) if (!b.count(n)) det += " missing:" + n; for (auto& n : b) if (!a.count(n)) det += " extra:" + n; }
        v.set("C09/schedule/output-differs-from-canonical:" + which, "output of the scheduled run differs from the -t 1 unpreempted run:" + det);
    }
    // -r: a function whose body occurs nowhere in the reference module must be classified dynamic
    if (!p.ref.empty() && p.ref != p.module && !p.changed.empty() && p.changed != "-") {
        std::vector<long> must; { std::istringstream is(p.changed); std::string t; while (std::getline(is, t, ',')) must.push_back(atol(t.c_str())); }
        if (canon.tot >= 0 && canon.dyn < (long)must.size())
            v.set("C09/reference/changed-function-classified-static:count", std::to_string(must.size()) + " functions have no byte-identical body in the reference module but only " + std::to_string(canon.dyn) + " were classified dynamic");
        for (long fi : must) {
            // definition of f<fi> in a static file?  (format-dependent: when the pattern matches nothing the textual check is skipped)
            std::string pat = "f" + std::to_string(fi) + "(";
            size_t pos = 0; bool in_static = false;
            while ((pos = canon.static_text.find(pat, pos)) != std::string::npos) {
                bool word = pos == 0 || !(isalnum((unsigned char)canon.static_text[pos - 1]));
                size_t close = canon.static_text.find(')', pos);
                size_t nl = canon.static_text.find('\n', pos);
                // a definition: "...f12(args) {" on one line, preceded by a type at line start
                if ((word || (pos >= 1 && canon.static_text[pos - 1] == '_')) && close != std::string::npos && nl != std::string::npos && close < nl && canon.static_text.find('{', close) < nl) {
                    size_t ls = canon.static_text.rfind('\n', pos); ls = ls == std::string::npos ? 0 : ls + 1;
                    std::string head = canon.static_text.substr(ls, pos - ls);
                    if (head.find('=') == std::string::npos && head.find('(') == std::string::npos && !head.empty() && head[0] != ' ') in_static = true;
                }
                pos += pat.size();
            }
            if (in_static) { v.set("C09/reference/changed-function-classified-static:definition-in-s-file", "function f" + std::to_string(fi) + " has no byte-identical body in the reference module but is defined in a static implementation file"); break; }
        }
    }
    // expected file set
    long nf = p.nfuncs, dyn = 0, stat = nf;
    if (!p.ref.empty()) { if (canon.tot >= 0) { dyn = canon.dyn; stat = canon.tot - canon.dyn; } else return; }
    std::string fv = opt_val(p, "-f"); long f = fv.empty() ? 0 : atol(fv.c_str()); if (f == 0) f = nf;
    std::set<std::string> expect; expect.insert(o.outbase); expect.insert(o.hdrbase);
    std::string dm = opt_val(p, "-d"); if (!dm.empty() && dm != "arrays") expect.insert("datasegments");
    bool single = f >= nf && dyn == 0;
    if (!single && f > 0) {
        char nm[32];
        for (long i = 0; i < (stat + f - 1) / f; i++) { snprintf(nm, sizeof nm, "s%010ld.c", i); expect.insert(nm); }
        for (long i = 0; i < (dyn + f - 1) / f; i++) { snprintf(nm, sizeof nm, "d%010ld.c", i); expect.insert(nm); }
    }
    std::set<std::string> got;
    for (auto& n : o.out_names) { std::string abs = o.root + "/" + n, d, b; split_path(abs, &d, &b); if (d == o.outdir) got.insert(b); }
    // pre-existing files with identical content do not show up as output: tolerate missing names that existed before with impl names
    std::string miss, extra;
    for (auto& e : expect) if (!got.count(e)) { std::string rel = (o.outdir.substr(o.root.size() + 1)) + "/" + e; if (!o.before.count(rel)) miss += " " + e; }
    for (auto& g : got) if (!expect.count(g)) extra += " " + g;
    if (!miss.empty() || !extra.empty()) v.set(std::string("C09/fileset/") + (!miss.empty() ? "missing" : "unexpected") + ":" + (p.ref.empty() ? "no-ref" : "ref"), "expected file set differs: missing{" + miss + " } unexpected{" + extra + " } (functions " + std::to_string(nf) + ", static " + std::to_string(stat) + ", dynamic " + std::to_string(dyn) + ", per file " + std::to_string(f) + ")");
}

// ------------------------------------------------------------------ result emission
static void emit(uint64_t idx, const Plan& p, const RunOut& o, const Verdict& v, const char* status, const std::string& extra) {
    std::string rp = "-";
    if (v.fail() && g_write_replays) {
        char path[512]; snprintf(path, sizeof path, "%s/%s-%016llx.replay", g_replay_dir.c_str(), p.prop.c_str(), (unsigned long long)p.seed);
        FILE* f = __real_fopen(path, "w");
        if (f) { fprintf(f, "# signature %s\n# detail %s\n%s", v.all().c_str(), v.detail.substr(0, 3000).c_str(), plan_to_text(p, &o.trace).c_str()); __real_fclose(f); rp = path; }
    }
    std::string det = v.detail; for (char& c : det) if (c == '\n') c = ' ';
    printf("R idx=%llu seed=%llu status=%s verdict=%s sig=%s log=%016llx il=%016llx steps=%llu switches=%llu memev=%llu simns=%lld ops=%zu tasks=%d exit=%d sigl=%d outhash=%016llx nout=%zu faults=",
           (unsigned long long)idx, (unsigned long long)p.seed, status, v.fail() ? "FAIL" : "pass", v.fail() ? v.all().c_str() : "-",
           (unsigned long long)o.st.log_hash, (unsigned long long)(o.st.il_hash ^ mix64(p.gseed, 7)), (unsigned long long)o.st.steps, (unsigned long long)o.st.switches, (unsigned long long)o.st.mem_events,
           (long long)o.st.sim_ns, (size_t)o.fopen_w, o.st.tasks, o.exit_code, o.sig, (unsigned long long)o.out_hash, o.out_names.size());
    bool first = true;
    for (int k = 0; k < F_KIND_COUNT; k++) if (o.st.faults[k]) { printf("%s%s:%llu", first ? "" : ",", fault_names[k], (unsigned long long)o.st.faults[k]); first = false; }
    if (p.trunc >= 0) { printf("%storn_input:1", first ? "" : ","); first = false; }
    if (first) printf("-");
    printf(" probes=lock_contended:%llu,cond_waits:%llu,fopen_w:%llu,removes:%llu,io_faults:%llu%s replay=%s", (unsigned long long)o.st.lock_contended, (unsigned long long)o.st.cond_waits,
           (unsigned long long)o.fopen_w, (unsigned long long)o.removes, (unsigned long long)o.io_faults, extra.c_str(), rp.c_str());
    if (v.fail()) printf(" detail=%s", det.substr(0, 3000).c_str());
    printf("\n");
}

// canonical cache per group
struct Canon { uint64_t gseed = 0; RunOut out; bool valid = false; };
static Canon g_canon;

static int do_run(uint64_t idx, Plan& p) {
    Verdict v; RunOut o; std::string extra;
    const char* status = "ok";
    if (p.prop == "C10") {
        if (p.trunc == -2) { printf("R idx=%llu seed=%llu status=skip verdict=pass sig=- log=0 il=0 steps=0 switches=0 memev=0 simns=0 ops=0 tasks=0 faults=- probes=- replay=-\n", (unsigned long long)idx, (unsigned long long)p.seed); return 0; }
        run_translator(p, false, o);
        bool deliberate_abort = !p.faults.empty() && (o.sig == SIGABRT || o.exit_code == 134) && o.stderr_tail.find("w2c2: failed to ") != std::string::npos && o.stderr_tail.find("Assertion") == std::string::npos && o.stderr_tail.find("Sanitizer") == std::string::npos;
        if (o.exit_code == 92) status = "budget";            // the simulator's own step budget ran out: counted, not judged
        else if (!deliberate_abort) crash_oracle(p, o, "C10", v, p.trunc >= 0);
        extra = std::string(",truncated:") + (p.trunc >= 0 ? "1" : "0") + ",exit_nonzero:" + (o.exit_code != 0 ? "1" : "0");
    } else if (p.prop == "C20") {
        run_translator(p, false, o);
        c20_oracle(p, o, v);
        if (o.exit_code == 92) status = "budget";
        extra = ",decoys:" + std::to_string(p.decoys.size()) + ",clean:" + (has_opt(p, "-c") ? "1" : "0");
    } else {
        if (!g_canon.valid || g_canon.gseed != p.gseed) { g_canon = Canon(); run_translator(p, true, g_canon.out); g_canon.gseed = p.gseed; g_canon.valid = true; }
        run_translator(p, false, o);
        if (o.exit_code == 92) status = "budget"; else c09_oracle(p, g_canon.out, o, v);
        extra = ",workers_gt1:" + std::string(o.st.tasks > 2 ? "1" : "0") + ",producer_waited:" + (o.st.cond_waits ? "1" : "0");
    }
    emit(idx, p, o, v, status, extra);
    return v.fail() ? 1 : 0;
}

extern "C" __attribute__((used)) const char* __asan_default_options() { return "exitcode=77:detect_leaks=0:abort_on_error=0"; }
extern "C" __attribute__((used)) const char* __ubsan_default_options() { return "halt_on_error=1:exitcode=77:print_stacktrace=1"; }

int main(int argc, char** argv) {
    // generous stacks: the instrumented translator's frames are several times larger than those of a plain build, and its
    // code generator recurses once per nesting level of the input
    { struct rlimit rl; if (getrlimit(RLIMIT_STACK, &rl) == 0) { rlim_t want = 120ull << 20; if (rl.rlim_cur != RLIM_INFINITY && rl.rlim_cur < want) { rl.rlim_cur = (rl.rlim_max == RLIM_INFINITY || rl.rlim_max > want) ? want : rl.rlim_max; setrlimit(RLIMIT_STACK, &rl); } }
      pthread_attr_t a; if (pthread_attr_init(&a) == 0) { pthread_attr_setstacksize(&a, 96ull << 20); pthread_setattr_default_np(&a); pthread_attr_destroy(&a); } }
    std::string prop, replay; uint64_t root = 1, start = 0, count = 1, stride = 1; bool dump = false, c10_enum = false, canon_dump = false;
    for (int i = 1; i < argc; i++) {
        std::string a = argv[i]; auto nxt = [&]() { return std::string(i + 1 < argc ? argv[++i] : ""); };
        if (a == "--prop") prop = nxt(); else if (a == "--seed") root = strtoull(nxt().c_str(), 0, 10); else if (a == "--start") start = strtoull(nxt().c_str(), 0, 10);
        else if (a == "--count") count = strtoull(nxt().c_str(), 0, 10); else if (a == "--stride") stride = strtoull(nxt().c_str(), 0, 10); else if (a == "--replay") replay = nxt();
        else if (a == "--dump-plan") dump = true; else if (a == "--corpus") g_corpus_dir = nxt(); else if (a == "--replay-dir") g_replay_dir = nxt();
        else if (a == "--no-replay-files") g_write_replays = false; else if (a == "--scratch") g_scratch_base = nxt(); else if (a == "--c10-enum") c10_enum = true; else if (a == "--sweep") g_sweep = true;
        else if (a == "--keep") g_keep = true; else if (a == "--no-t-option") g_no_t_option = true; else if (a == "--canonical-dump") canon_dump = true;
    }
    S = (Shared*)mmap(nullptr, sizeof(Shared), PROT_READ | PROT_WRITE, MAP_SHARED | MAP_ANONYMOUS, -1, 0);
    if (S == MAP_FAILED) { perror("mmap"); return 2; }
    setvbuf(stdout, nullptr, _IOLBF, 0);
    std::string base = g_scratch_base + "/verif-e2-" + pid7();
    mkdirs(base);
    int rc = 0;
    if (!replay.empty()) {
        FILE* f = fopen(replay.c_str(), "r"); if (!f) { fprintf(stderr, "simxl: cannot open %s\n", replay.c_str()); return 2; }
        std::string text; char buf[4096]; size_t n; while ((n = fread(buf, 1, sizeof buf, f)) > 0) text.append(buf, n); fclose(f);
        Plan p; if (!plan_from_text(text, p)) { fprintf(stderr, "simxl: bad replay file\n"); return 2; }
        g_write_replays = false;
        rc = do_run(0, p);
    } else {
        if (prop.empty() || g_corpus_dir.empty()) { fprintf(stderr, "usage: simxl --prop ID --corpus DIR [--seed S --start I --count N --stride K | --replay FILE]\n"); return 2; }
        load_corpus();
        for (uint64_t k = 0; k < count; k++) {
            uint64_t idx = start + k * stride;
            Plan p = make_plan(prop, root, idx, c10_enum);
            if (dump) { printf("%s", plan_to_text(p, nullptr).c_str()); continue; }
            if (canon_dump) { RunOut o; g_keep = true; run_translator(p, true, o); std::string fl; for (auto& n : o.out_names) { std::string abs = o.root + "/" + n, d, b; split_path(abs, &d, &b); if (d == o.outdir) fl += (fl.empty() ? "" : "|") + b; }
                printf("CANON idx=%llu exit=%d outhash=%016llx root=%s outdir=%s outbase=%s args=%s dmode=%s files=%s\n", (unsigned long long)idx, o.exit_code, (unsigned long long)o.out_hash, o.root.c_str(), o.outdir.c_str(), o.outbase.c_str(), opts_sig(p).c_str(), opt_val(p, "-d").empty() ? "arrays" : opt_val(p, "-d").c_str(), fl.c_str()); continue; }
            do_run(idx, p);
        }
    }
    if (!g_keep) rm_rf(base);
    return rc;
}
