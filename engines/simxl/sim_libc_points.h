/* Force-included (-include) into every translator source of the E2 engine.
 * libc functions that fill a caller-supplied buffer are not instrumented by sanitizer coverage, so the moment between
 * "the buffer was filled" and "the caller uses it" would never be a preemption point. Each such call gets one here. */
#ifndef SIM_LIBC_POINTS_H
#define SIM_LIBC_POINTS_H
#include <stdio.h>
#include <string.h>
void sim_libc_write_point(void);
static __inline__ int sim_ret_int_(int r) { sim_libc_write_point(); return r; }
static __inline__ char* sim_ret_ptr_(char* r) { sim_libc_write_point(); return r; }
#define sprintf(...) sim_ret_int_(sprintf(__VA_ARGS__))
#define snprintf(...) sim_ret_int_(snprintf(__VA_ARGS__))
#define strcpy(d, s) sim_ret_ptr_(strcpy((d), (s)))
#define strcat(d, s) sim_ret_ptr_(strcat((d), (s)))
#define strncpy(d, s, n) sim_ret_ptr_(strncpy((d), (s), (n)))
#endif
