#!/usr/bin/env python3
"""Generates the .wasm modules (and C export tables) the simulation engines drive.

usage: wasmgen.py <kind> <outdir> [params...]
kinds:
  atom   shared-memory module: every atomic opcode (two static offsets each), plain loads/stores,
         size/grow, bulk ops, wait32/wait64/notify with static offset 0 and non-zero
  mem    same exports on a non-shared memory with passive segments (C05)
Each kind writes <name>.wasm and <name>_exports.inc (a C table: name, signature, symbol).
"""
import sys, os
sys.path.insert(0, os.path.dirname(os.path.abspath(__file__)))
from wasmenc import *  # noqa

TY = {"i": I32, "j": I64, "f": F32, "d": F64}


def ident(s):
    return s.replace(".", "_")


class Gen:
    def __init__(self, name):
        self.name = name
        self.m = Module()
        self.table = []   # (export name, sig, kind, info)

    def add(self, export, params, results, body, kind, info="", locals_=()):
        self.m.func([TY[c] for c in params], [TY[c] for c in results], body, locals_=locals_, export=export)
        self.table.append((export, params + "_" + (results or "v"), kind, info))

    def write(self, outdir):
        os.makedirs(outdir, exist_ok=True)
        with open(os.path.join(outdir, self.name + ".wasm"), "wb") as f:
            f.write(self.m.encode())
        with open(os.path.join(outdir, self.name + "_exports.inc"), "w") as f:
            for ex, sig, kind, info in self.table:
                f.write('X(%s, "%s", "%s", "%s", "%s")\n' % (ex, ex, sig, kind, info))


OFFS = [0, 16]          # static offsets used for every memory instruction variant
WAIT_OFFS = [0, 24]


def add_memory_ops(g, shared):
    m = g.m
    # plain loads / stores
    for op in PLAIN_LOADS:
        rt = {"i32": "i", "i64": "j", "f32": "f", "f64": "d"}[op.split(".")[0]]
        for off in OFFS + [65535]:
            for al in ("n", "0"):   # natural alignment hint and alignment 0
                if off == 65535 and al == "0":
                    continue
                nm = "%s_o%d%s" % (ident(op), off, "" if al == "n" else "_a0")
                ins = (op, off) if al == "n" else (op, off, 0)
                g.add(nm, "i", rt, [("local.get", 0), ins], "load", "%s,%d" % (op, off))
    for op in PLAIN_STORES:
        vt = {"i32": "i", "i64": "j", "f32": "f", "f64": "d"}[op.split(".")[0]]
        for off in OFFS + [65535]:
            nm = "%s_o%d" % (ident(op), off)
            g.add(nm, "i" + vt, "", [("local.get", 0), ("local.get", 1), (op, off)], "store", "%s,%d" % (op, off))
    g.add("size", "", "i", ["memory.size"], "size")
    g.add("grow", "i", "i", [("local.get", 0), "memory.grow"], "grow")
    g.add("copy", "iii", "", [("local.get", 0), ("local.get", 1), ("local.get", 2), ("memory.copy",)], "copy")
    g.add("fill", "iii", "", [("local.get", 0), ("local.get", 1), ("local.get", 2), ("memory.fill",)], "fill")


def gen_atom(outdir, maxpages=6):
    g = Gen("atom")
    m = g.m
    m.memory(1, maxpages, shared=True, export="memory")
    add_memory_ops(g, True)
    for op, code in sorted(ATOMIC.items(), key=lambda kv: kv[1]):
        if op in ("atomic.fence",):
            continue
        t = op.split(".")[0]
        vt = "i" if t == "i32" else "j"
        for off in OFFS:
            if op.startswith("memory.atomic.wait32"):
                pass
            if op == "memory.atomic.notify" or op.startswith("memory.atomic.wait"):
                continue
            nm = "%s_o%d" % (ident(op), off)
            if ".load" in op:
                g.add(nm, "i", vt, [("local.get", 0), (op, off)], "aload", "%s,%d" % (op, off))
            elif ".store" in op:
                g.add(nm, "i" + vt, "", [("local.get", 0), ("local.get", 1), (op, off)], "astore", "%s,%d" % (op, off))
            elif "cmpxchg" in op:
                g.add(nm, "i" + vt + vt, vt, [("local.get", 0), ("local.get", 1), ("local.get", 2), (op, off)], "cmpxchg", "%s,%d" % (op, off))
            else:
                g.add(nm, "i" + vt, vt, [("local.get", 0), ("local.get", 1), (op, off)], "rmw", "%s,%d" % (op, off))
    for off in WAIT_OFFS:
        g.add("wait32_o%d" % off, "iij", "i", [("local.get", 0), ("local.get", 1), ("local.get", 2), ("memory.atomic.wait32", off)], "wait32", str(off))
        g.add("wait64_o%d" % off, "ijj", "i", [("local.get", 0), ("local.get", 1), ("local.get", 2), ("memory.atomic.wait64", off)], "wait64", str(off))
        g.add("notify_o%d" % off, "ii", "i", [("local.get", 0), ("local.get", 1), ("memory.atomic.notify", off)], "notify", str(off))
    g.add("fence", "", "", [("atomic.fence",)], "fence")
    g.write(outdir)


def gen_mem(outdir, minpages=1, maxpages=8, nomax=False):
    g = Gen("mem")
    m = g.m
    if nomax:
        m.memory(minpages, None, export="memory")
    else:
        m.memory(minpages, maxpages, export="memory")
    add_memory_ops(g, False)
    # passive segments for memory.init, and one active segment
    seg0 = bytes((i * 7 + 3) & 0xFF for i in range(200))
    seg1 = bytes((255 - i) & 0xFF for i in range(33))
    m.data_active([("i32.const", 1000)], b"ACTIVE-SEGMENT")
    m.data_passive(seg0)
    m.data_passive(seg1)
    m.data_passive(b"")
    for s in (1, 2, 3):
        g.add("init%d" % s, "iii", "", [("local.get", 0), ("local.get", 1), ("local.get", 2), ("memory.init", s)], "init", str(s))
    g.write(outdir)


if __name__ == "__main__":
    kind, outdir = sys.argv[1], sys.argv[2]
    if kind == "atom":
        gen_atom(outdir, *[int(x) for x in sys.argv[3:4]])
    elif kind == "mem":
        params = sys.argv[3:]
        mn = int(params[0]) if params else 1
        mx = int(params[1]) if len(params) > 1 else 8
        gen_mem(outdir, mn, mx, nomax=(mx < 0))
    else:
        sys.exit("unknown kind")
