#!/usr/bin/env python3
"""Generates the .wasm modules (and C export tables) the simulation engines drive.

usage: wasmgen.py <kind> <outdir> [params...]
kinds:
  atom   shared-memory module: every atomic opcode (two static offsets each), plain loads/stores,
         size/grow, bulk ops, wait32/wait64/notify with static offset 0 and non-zero
  mem    same exports on a non-shared memory with passive segments (C05)
Each kind writes <name>.wasm and <name>_exports.inc (a C table: name, signature, symbol).
"""
import sys, os
sys.path.insert(0, os.path.dirname(os.path.abspath(__file__)))
from wasmenc import *  # noqa

TY = {"i": I32, "j": I64, "f": F32, "d": F64}


def ident(s):
    return s.replace(".", "_")


class Gen:
    def __init__(self, name):
        self.name = name
        self.m = Module()
        self.table = []   # (export name, sig, kind, info)

    def add(self, export, params, results, body, kind, info="", locals_=()):
        self.m.func([TY[c] for c in params], [TY[c] for c in results], body, locals_=locals_, export=export)
        self.table.append((export, params + "_" + (results or "v"), kind, info))

    def write(self, outdir):
        os.makedirs(outdir, exist_ok=True)
        with open(os.path.join(outdir, self.name + ".wasm"), "wb") as f:
            f.write(self.m.encode())
        with open(os.path.join(outdir, self.name + "_exports.inc"), "w") as f:
            for ex, sig, kind, info in self.table:
                f.write('X(%s, "%s", "%s", "%s", "%s")\n' % (ex, ex, sig, kind, info))


OFFS = [0, 16]          # static offsets used for every memory instruction variant
WAIT_OFFS = [0, 24]


PUNS = [("i32.store", "f32.store", "i32.load"), ("f32.store", "i32.store", "f32.load"), ("i64.store", "f64.store", "i64.load"),
        ("f64.store", "i64.store", "f64.load"), ("i64.store", "i32.store", "i64.load"), ("i64.store", "f32.store", "i64.load"),
        ("f64.store", "i32.store", "f64.load"), ("i32.store", "i32.store16", "i32.load"), ("i32.store", "i32.store8", "i32.load16_s"),
        ("i32.store", "i64.store32", "i32.load"), ("i64.store", "i64.store16", "i64.load32_s"), ("f32.store", "i32.store8", "f32.load"),
        ("f32.store", "-", "i32.load"), ("i32.store", "-", "f32.load"), ("f64.store", "-", "i64.load"), ("i64.store", "-", "f64.load"),
        ("f64.store", "-", "i32.load16_u"), ("i64.store", "f64.store", "i32.load8_s")]


def add_memory_ops(g, shared):
    m = g.m
    # plain loads / stores
    for op in PLAIN_LOADS:
        rt = {"i32": "i", "i64": "j", "f32": "f", "f64": "d"}[op.split(".")[0]]
        for off in OFFS + [65535] + ([70000, 300001] if op in ("i32.load", "i64.load16_s", "f64.load", "i32.load8_s") else []):
            for al in ("n", "0"):   # natural alignment hint and alignment 0
                if off == 65535 and al == "0":
                    continue
                nm = "%s_o%d%s" % (ident(op), off, "" if al == "n" else "_a0")
                ins = (op, off) if al == "n" else (op, off, 0)
                g.add(nm, "i", rt, [("local.get", 0), ins], "load", "%s,%d" % (op, off))
    for op in PLAIN_STORES:
        vt = {"i32": "i", "i64": "j", "f32": "f", "f64": "d"}[op.split(".")[0]]
        for off in OFFS + [65535] + ([70000, 300001] if op in ("i32.store", "i64.store32", "f32.store", "i32.store8") else []):
            nm = "%s_o%d" % (ident(op), off)
            g.add(nm, "i" + vt, "", [("local.get", 0), ("local.get", 1), (op, off)], "store", "%s,%d" % (op, off))
    # several accesses of different types to one address inside one function (what an optimiser sees as one unit):
    # store; store of another type (or none); load - all operands and the result travel as i64 bit patterns
    to_t = {"i32": ["i32.wrap_i64"], "i64": [], "f32": ["i32.wrap_i64", "f32.reinterpret_i32"], "f64": ["f64.reinterpret_i64"]}
    from_t = {"i32": ["i64.extend_i32_u"], "i64": [], "f32": ["i32.reinterpret_f32", "i64.extend_i32_u"], "f64": ["i64.reinterpret_f64"]}
    for n, (s1, s2, ld) in enumerate(PUNS):
        for off in (0, 16):
            body = [("local.get", 0), ("local.get", 1)] + to_t[s1.split(".")[0]] + [(s1, off)]
            if s2 != "-":
                body += [("local.get", 0), ("local.get", 2)] + to_t[s2.split(".")[0]] + [(s2, off)]
            body += [("local.get", 0), (ld, off)] + from_t[ld.split(".")[0]]
            g.add("pun%d_o%d" % (n, off), "ijj", "j", body, "pun", "%s|%s|%s,%d" % (s1, s2, ld, off))
    g.add("size", "", "i", ["memory.size"], "size")
    g.add("grow", "i", "i", [("local.get", 0), "memory.grow"], "grow")
    g.add("copy", "iii", "", [("local.get", 0), ("local.get", 1), ("local.get", 2), ("memory.copy",)], "copy")
    g.add("fill", "iii", "", [("local.get", 0), ("local.get", 1), ("local.get", 2), ("memory.fill",)], "fill")


def gen_atom(outdir, maxpages=6, imported=False):
    g = Gen("atomimp" if imported else "atom")
    m = g.m
    if imported:
        # the usual layout of threaded programs: the shared memory is imported (and re-exported)
        m.import_memory("env", "memory", 1, maxpages, shared=True)
        m.exports.append(("memory", 2, 0))
    else:
        m.memory(1, maxpages, shared=True, export="memory")
    add_memory_ops(g, True)
    add_atomic_ops(g)
    for off in WAIT_OFFS:
        g.add("wait32_o%d" % off, "iij", "i", [("local.get", 0), ("local.get", 1), ("local.get", 2), ("memory.atomic.wait32", off)], "wait32", str(off))
        g.add("wait64_o%d" % off, "ijj", "i", [("local.get", 0), ("local.get", 1), ("local.get", 2), ("memory.atomic.wait64", off)], "wait64", str(off))
        g.add("notify_o%d" % off, "ii", "i", [("local.get", 0), ("local.get", 1), ("memory.atomic.notify", off)], "notify", str(off))
    g.add("fence", "", "", [("atomic.fence",)], "fence")
    g.write(outdir)


def add_atomic_ops(g, only_load_store=False):
    # every atomic load/store/rmw/cmpxchg opcode with two static offsets (also valid on a memory that is not shared)
    for op, code in sorted(ATOMIC.items(), key=lambda kv: kv[1]):
        if op in ("atomic.fence",):
            continue
        t = op.split(".")[0]
        vt = "i" if t == "i32" else "j"
        for off in OFFS:
            if op.startswith("memory.atomic.wait32"):
                pass
            if op == "memory.atomic.notify" or op.startswith("memory.atomic.wait"):
                continue
            nm = "%s_o%d" % (ident(op), off)
            if only_load_store and ".load" not in op and ".store" not in op:
                continue
            if ".load" in op:
                g.add(nm, "i", vt, [("local.get", 0), (op, off)], "aload", "%s,%d" % (op, off))
            elif ".store" in op:
                g.add(nm, "i" + vt, "", [("local.get", 0), ("local.get", 1), (op, off)], "astore", "%s,%d" % (op, off))
            elif "cmpxchg" in op:
                g.add(nm, "i" + vt + vt, vt, [("local.get", 0), ("local.get", 1), ("local.get", 2), (op, off)], "cmpxchg", "%s,%d" % (op, off))
            else:
                g.add(nm, "i" + vt, vt, [("local.get", 0), ("local.get", 1), (op, off)], "rmw", "%s,%d" % (op, off))


def gen_mem(outdir, minpages=1, maxpages=8, nomax=False, name="mem", only_load_store=False):
    g = Gen(name)
    m = g.m
    if nomax:
        m.memory(minpages, None, export="memory")
    else:
        m.memory(minpages, maxpages, export="memory")
    add_memory_ops(g, False)
    add_atomic_ops(g, only_load_store)
    # passive segments for memory.init, and one active segment
    seg0 = bytes((i * 7 + 3) & 0xFF for i in range(200))
    seg1 = bytes((255 - i) & 0xFF for i in range(33))
    m.data_active([("i32.const", 1000)], b"ACTIVE-SEGMENT")
    # a later segment whose trailing zero bytes have to overwrite what the first one put there, and one that is all zeros
    m.data_active([("i32.const", 1004)], b"\x01\x00\x00\x00")
    m.data_active([("i32.const", 1010)], b"\x00\x00")
    m.data_passive(seg0)
    m.data_passive(seg1)
    m.data_passive(b"")
    for s in (1, 2, 3):
        g.add("init%d" % s, "iii", "", [("local.get", 0), ("local.get", 1), ("local.get", 2), ("memory.init", s + 2)], "init", str(s))
    g.write(outdir)


if __name__ == "__main__":
    kind, outdir = sys.argv[1], sys.argv[2]
    if kind == "atom":
        gen_atom(outdir, *[int(x) for x in sys.argv[3:4]])
    elif kind == "atomimp":
        gen_atom(outdir, 6, imported=True)
    elif kind == "memls":
        gen_mem(outdir, name="memls", only_load_store=True)     # atomic loads and stores only: what a build without a threads implementation supports
    elif kind == "memnomax":
        gen_mem(outdir, 1, 8, nomax=True, name="memnomax")     # a memory that declares no maximum
    elif kind == "mem":
        params = sys.argv[3:]
        mn = int(params[0]) if params else 1
        mx = int(params[1]) if len(params) > 1 else 8
        gen_mem(outdir, mn, mx, nomax=(mx < 0))
    elif kind in ("xlcorpus", "wasihost", "inst", "becorpus"):
        pass   # handled at the end of the file
    else:
        sys.exit("unknown kind")


# ---------------------------------------------------------------------------------------------
# E2 corpus: synthetic valid modules with uneven function sizes, duplicated bodies, wild names,
# data/element segments, name sections, plus a "reference" variant of each (for -r).
import random

BIN = {I32: ["i32.add", "i32.sub", "i32.mul", "i32.and", "i32.or", "i32.xor", "i32.shl", "i32.shr_u", "i32.shr_s", "i32.rotl", "i32.rotr"],
       I64: ["i64.add", "i64.sub", "i64.mul", "i64.and", "i64.or", "i64.xor", "i64.shl", "i64.shr_u", "i64.rotl"],
       F32: ["f32.add", "f32.sub", "f32.mul", "f32.min"], F64: ["f64.add", "f64.sub", "f64.mul", "f64.max"]}
UN = {I32: ["i32.clz", "i32.ctz", "i32.popcnt", "i32.eqz"], I64: ["i64.clz"], F32: ["f32.abs", "f32.neg"], F64: ["f64.abs", "f64.neg"]}
CMP = {I32: ["i32.eq", "i32.ne", "i32.lt_s", "i32.lt_u", "i32.gt_s", "i32.le_u", "i32.ge_s"], I64: ["i64.eq", "i64.ne", "i64.lt_s"],
       F32: ["f32.eq", "f32.lt"], F64: ["f64.eq", "f64.gt"]}
CONV = {I32: [("i32.wrap_i64", I64), ("i32.reinterpret_f32", F32)], I64: [("i64.extend_i32_u", I32), ("i64.extend_i32_s", I32), ("i64.reinterpret_f64", F64)],
        F32: [("f32.convert_i32_s", I32), ("f32.demote_f64", F64), ("f32.reinterpret_i32", I32)],
        F64: [("f64.convert_i32_s", I32), ("f64.convert_i64_u", I64), ("f64.promote_f32", F32), ("f64.reinterpret_i64", I64)]}
LOADS = {I32: ["i32.load", "i32.load8_s", "i32.load8_u", "i32.load16_s", "i32.load16_u"], I64: ["i64.load", "i64.load8_u", "i64.load16_s", "i64.load32_s", "i64.load32_u"],
         F32: ["f32.load"], F64: ["f64.load"]}
STORES = {I32: ["i32.store", "i32.store8", "i32.store16"], I64: ["i64.store", "i64.store8", "i64.store16", "i64.store32"], F32: ["f32.store"], F64: ["f64.store"]}
WILD_CONST = {I32: [0, 1, 0x7FFFFFFF, 0x80000000, 0xFFFFFFFF, 42], I64: [0, 1, 0x7FFFFFFFFFFFFFFF, 0x8000000000000000, 0xFFFFFFFFFFFFFFFF],
              F32: [0, 0x80000000, 0x7F800000, 0xFF800000, 0x7FC00000, 0x7FA00001, 0x00000001, 0x3F800000, 0x7F7FFFFF],
              F64: [0, 0x8000000000000000, 0x7FF0000000000000, 0x7FF8000000000000, 0x7FF4000000000001, 1, 0x3FF0000000000000, 0x7FEFFFFFFFFFFFFF]}


class BodyGen:
    def __init__(self, rnd, locals_types, funcs, has_mem, globals_, table_types):
        self.r = rnd; self.lt = locals_types; self.funcs = funcs; self.has_mem = has_mem; self.globals = globals_; self.tt = table_types
        self.depth_labels = 0

    def const(self, t):
        r = self.r
        if r.random() < 0.3:
            v = r.choice(WILD_CONST[t])
        else:
            v = r.getrandbits(32 if t in (I32, F32) else 64)
            if t == I32 and r.random() < 0.5:
                v = r.randrange(0, 300)
        return [({I32: "i32.const", I64: "i64.const", F32: "f32.const", F64: "f64.const"}[t], v)]

    def expr(self, t, d):
        r = self.r
        k = r.random()
        loc = [i for i, x in enumerate(self.lt) if x == t]
        if d <= 0 or k < 0.15:
            if loc and r.random() < 0.6:
                return [("local.get", r.choice(loc))]
            return self.const(t)
        if k < 0.45:
            return self.expr(t, d - 1) + self.expr(t, d - 1) + [r.choice(BIN[t])]
        if k < 0.52:
            if t == I32 and r.random() < 0.5:
                ct = r.choice([I32, I64, F32, F64])
                return self.expr(ct, d - 1) + self.expr(ct, d - 1) + [r.choice(CMP[ct])]
            return self.expr(t, d - 1) + [r.choice([u for u in UN[t] if not (t == I32 and u == "i32.eqz")] or UN[t])]
        if k < 0.60:
            op, src = r.choice(CONV[t])
            return self.expr(src, d - 1) + [op]
        if k < 0.68 and self.has_mem:
            return self.expr(I32, d - 1) + [("i32.const", 0xFFF), "i32.and", (r.choice(LOADS[t]), r.choice([0, 1, 4, 100, 4000]))]
        if k < 0.75:
            return self.expr(I32, d - 1) + [("if", t)] + self.expr(t, d - 1) + ["else"] + self.expr(t, d - 1) + ["end"]
        if k < 0.80:
            # block with a conditional early exit carrying the value
            return [("block", t)] + self.expr(t, d - 1) + self.expr(I32, d - 1) + [("br_if", 0)] + ["drop"] + self.expr(t, d - 1) + ["end"]
        if k < 0.86:
            return self.expr(t, d - 1) + self.expr(t, d - 1) + self.expr(I32, d - 1) + ["select"]
        if k < 0.93:
            cands = [(i, ps) for i, (ps, rs) in enumerate(self.funcs) if rs == (t,)]
            if cands:
                i, ps = r.choice(cands)
                out = []
                for p in ps:
                    out += self.expr(p, d - 1)
                return out + [("call", i)]
        if k < 0.96 and self.tt:
            cands = [(ti, ps) for ti, (ps, rs) in self.tt.items() if rs == (t,)]
            if cands:
                ti, ps = r.choice(cands)
                out = []
                for p in ps:
                    out += self.expr(p, d - 1)
                return out + self.expr(I32, 0) + [("call_indirect", ti)]
        g = [i for i, (gt, _) in enumerate(self.globals) if gt == t]
        if g:
            return [("global.get", r.choice(g))]
        return self.const(t)

    def stmts(self, n, d):
        r = self.r
        out = []
        for _ in range(n):
            k = r.random()
            deep = d > 0
            if k < 0.35 and self.lt:
                i = r.randrange(len(self.lt))
                out += self.expr(self.lt[i], d) + [("local.set" if r.random() < 0.8 else "local.tee", i)]
                if out[-1][0] == "local.tee":
                    out += ["drop"]
            elif k < 0.5 and self.has_mem:
                t = r.choice([I32, I64, F32, F64])
                out += self.expr(I32, d - 1) + [("i32.const", 0xFFF), "i32.and"] + self.expr(t, d - 1) + [(r.choice(STORES[t]), r.choice([0, 2, 8, 1000]))]
            elif k < 0.6 and deep:
                out += self.expr(I32, d - 1) + [("if",)] + self.stmts(r.randrange(1, 3), d - 1) + (["else"] + self.stmts(1, d - 1) if r.random() < 0.5 else []) + ["end"]
            elif k < 0.68 and deep and any(x == I32 for x in self.lt):
                c = r.choice([i for i, x in enumerate(self.lt) if x == I32])
                out += [("loop",)] + self.stmts(1, d - 1) + [("local.get", c), ("i32.const", 1), "i32.sub", ("local.tee", c), ("br_if", 0), "end"]
            elif k < 0.74 and deep:
                out += [("block",)] + self.stmts(1, d - 1) + self.expr(I32, d - 1) + [("br_table", [0, 0], 0)] + ["end"]
            elif k < 0.8:
                mg = [i for i, (gt, mut) in enumerate(self.globals) if mut]
                if mg:
                    i = r.choice(mg)
                    out += self.expr(self.globals[i][0], d - 1) + [("global.set", i)]
            elif k < 0.85:
                out += ["nop"]
            elif k < 0.89 and deep:
                # statically unreachable code (stack-polymorphic): a terminator followed by instructions that stay valid there
                term = r.choice([["unreachable"], [("br", 0)], [("i32.const", 0), ("br_table", [0], 0)]])
                dead = []
                for _ in range(r.choice([1, 1, 2, 4])):
                    dead += r.choice([["return"], ["drop"], ["i32.add", "drop"], [("br", 0)], ["unreachable"], ["select", "drop"], ["nop"],
                                      [("i64.const", 1), "i64.add", "drop"], ["i32.eqz", ("br_if", 0)], ["f64.neg", "drop"], ["return", "return"],
                                      [("block",), "end"], [("i32.const", 1), ("if",), "nop", "end"], [("loop",), ("br", 1), "end"]])
                out += [("block",)] + self.stmts(r.randrange(0, 2), d - 1) + term + dead + ["end"]
            else:
                t = r.choice([I32, I64, F32, F64])
                out += self.expr(t, d) + ["drop"]
        return out


WILD_CHARS = ["a", "Z", "0", "_", "$", ".", "-", "+", "*", "/", "\\", "\"", "'", " ", "%", "é", "ß", "日", "本", "😀", "\t", "<", ">", "#", "(", ")", "[", "]", "{", "}", ";", ":", ",", "@", "!", "?", "=", "&", "|", "^", "~", "`"]


def wild_name(r, used, maxlen=40, tame=False):
    while True:
        n = r.choice([1, 2, 5, 12, maxlen])
        if tame:
            s = "".join(r.choice("abcdefghijklmnopqrstuvwxyzABCDEFGHIJKLMNOPQRSTUVWXYZ0123456789_$.") for _ in range(n))
        else:
            s = "".join(r.choice(WILD_CHARS) for _ in range(n))
        if s and s not in used:
            used.add(s)
            return s


def gen_xl_module(rnd, profile):
    """profile: dict(nfuncs, body, names, mem, table, ...). Returns (Module, info)."""
    r = rnd
    m = Module()
    nf = profile["nfuncs"]
    has_mem = profile.get("mem", True)
    # imports first
    used = set()
    nimp = r.choice([0, 0, 1, 3])
    sigs = []
    TYPES = [I32, I64, F32, F64]

    def rsig():
        return (tuple(r.choice(TYPES) for _ in range(r.choice([0, 1, 2, 3, 5]))), tuple([r.choice(TYPES)] if r.random() < 0.8 else []))
    for i in range(nimp):
        ps, rs = rsig()
        m.import_func(wild_name(r, used, 20, profile.get("tame", False)), wild_name(r, used, 30, profile.get("tame", False)), ps, rs)
        sigs.append((ps, rs))
    imp_glob = []
    if r.random() < 0.3:
        m.import_global("env", "g_imp", I32, False)
        imp_glob.append((I32, False))
    # function signatures
    for i in range(nf):
        sigs.append(rsig())
    globals_ = list(imp_glob)
    for i in range(r.choice([0, 1, 3])):
        t = r.choice(TYPES)
        mut = r.random() < 0.7
        globals_.append((t, mut))
    table_types = {}
    if profile.get("table", True) and nf > 0:
        for (ps, rs) in sigs[nimp:nimp + 4]:
            table_types[m.type(ps, rs)] = (ps, rs)
    bodies = []
    dup_pool = []
    for i in range(nf):
        ps, rs = sigs[nimp + i]
        if dup_pool and r.random() < profile.get("dup", 0.15):
            # duplicate an earlier body with the same signature, if any
            c = [b for b in dup_pool if b[0] == (ps, rs)]
            if c:
                b = r.choice(c)
                bodies.append(b)
                continue
        nloc = r.choice([0, 1, 2, 4, 9]) if r.random() < 0.9 else r.choice([40, 120])
        lts = list(ps) + [r.choice(TYPES) for _ in range(nloc)]
        g = BodyGen(r, lts, sigs, has_mem, globals_, table_types)
        size = r.choice(profile.get("sizes", [0, 1, 2, 3, 6, 15]))
        depth = r.choice([1, 2, 3]) if r.random() < 0.9 else 5
        code = g.stmts(size, depth)
        for t in rs:
            code += g.expr(t, depth)
        # group locals by runs of equal type
        locs = []
        for t in lts[len(ps):]:
            if locs and locs[-1][1] == t:
                locs[-1] = (locs[-1][0] + 1, t)
            else:
                locs.append((1, t))
        b = ((ps, rs), locs, code)
        bodies.append(b)
        dup_pool.append(b)
    # functions whose code-section entry (locals vector + code + end) has an exact byte length: hash block boundaries
    for (L, a, k) in profile.get("aligned", []):
        b = (((), (I32,)), [], aligned_code(L, a, k))
        bodies.append(b)
        sigs.append(b[0])
    if has_mem:
        m.memory(1, r.choice([None, 2, 16]), export="memory" if r.random() < 0.7 else None)
    if table_types:
        m.table(8, 8)
    for (t, mut) in globals_[len(imp_glob):]:
        m.global_(t, mut, BodyGen(r, [], [], False, [], {}).const(t))
    fidx = []
    name_pool = []
    rd = random.Random(profile.get("dupseed", 0))
    for i, (sig, locs, code) in enumerate(bodies):
        ex = None
        if r.random() < profile.get("export_p", 0.5):
            ex = wild_name(r, used, profile.get("maxname", 60), profile.get("tame", False))
        nm = None
        if profile.get("names") and r.random() < 0.7:
            nm = wild_name(r, set(), 24, tame=profile.get("tame_names", True))
            # producers emit the same debug name for several functions: runs of 2, 3 and more equal names
            if name_pool and rd.random() < profile.get("dupnames", 0.0):
                nm = rd.choice(name_pool)
            else:
                name_pool.append(nm)
        fidx.append(m.func(sig[0], sig[1], code, locals_=locs, export=ex, nm=nm))
    if table_types and fidx:
        m.elem([("i32.const", 0)], [r.choice(fidx) for _ in range(r.randrange(1, 8))])
    if has_mem:
        for i in range(r.choice([0, 1, 3])):
            m.data_active([("i32.const", r.choice([0, 16, 1000, 65500]))], bytes(r.getrandbits(8) for _ in range(r.choice([0, 1, 7, 36, 300]))))
        if r.random() < 0.3:
            m.data_passive(bytes(r.getrandbits(8) for _ in range(r.choice([0, 5, 64]))))
            if r.random() < 0.5:
                m.data_active([("i32.const", 2000)], b"after-passive")
    if profile.get("names") and r.random() < 0.3:
        # a name section in front of the function section: either naming the imported functions only (well-formed at
        # that position) or all functions (refers to functions not known yet; must not invalidate the module)
        m.name_pos = "after_import"
        if r.random() < 0.5 and nimp > 0:
            m.func_names = {i: "imp%d" % i for i in range(nimp)}
    if r.random() < 0.2:
        m.customs.append(("producers", b"\x00", "end"))
    if r.random() < 0.1:
        m.customs.append(("wild\x01sec", bytes(r.getrandbits(8) for _ in range(10)), "start"))
    return m, bodies, sigs, nimp


def aligned_code(L, a, k):
    # 1 (empty locals vector) + 3 (i32.const a; drop) + nops + 2 (i32.const k) + 1 (end) = L bytes; a, k in 0..63
    return [("i32.const", a), "drop"] + ["nop"] * (L - 7) + [("i32.const", k)]


def gen_xlcorpus(outdir, seed, count):
    os.makedirs(outdir, exist_ok=True)
    rnd = random.Random(seed)
    lines = []
    for i in range(count):
        r = random.Random(rnd.getrandbits(64))
        prof = {"nfuncs": r.choice([0, 1, 2, 3, 5, 8, 13, 21, 34, 60]), "mem": r.random() < 0.85, "table": r.random() < 0.6,
                "names": r.random() < 0.5, "tame": r.random() < 0.5, "tame_names": r.random() < 0.8,
                "dup": r.choice([0.0, 0.15, 0.5]), "export_p": r.choice([0.0, 0.5, 1.0]),
                "maxname": r.choice([10, 60, 300]), "sizes": r.choice([[0, 1, 2], [0, 1, 2, 3, 6, 15], [1, 40]])}
        r3 = random.Random(seed * 7919 + i)
        if r3.random() < 0.5:
            prof["aligned"] = [(r3.choice([64, 128, 192, 256, 320, 576, 127, 129, 191, 193, 100]), r3.randrange(64), r3.randrange(64)) for _ in range(r3.choice([1, 2, 3]))]
        prof["dupnames"] = r3.choice([0.0, 0.0, 0.3, 0.8])
        prof["dupseed"] = r3.getrandbits(32)
        st = r.getstate()
        m, bodies, sigs, nimp = gen_xl_module(r, prof)
        n_aligned = len(prof.get("aligned", []))
        data = m.encode()
        name = "m%03d" % i
        with open(os.path.join(outdir, name + ".wasm"), "wb") as f:
            f.write(data)
        # reference variant (a valid module with the same index space): a seeded subset of bodies is changed
        # (a trailing nop) or replaced by a trivial body, and extra functions are appended
        import copy
        r2 = random.Random(seed * 1000003 + i)
        mref = copy.deepcopy(m)
        mref.funcs = []
        mref.func_names = {}
        saved_exports = mref.exports
        changed = []
        for k, (sig, locs, code) in enumerate(bodies):
            x = r2.random()
            if k >= len(bodies) - n_aligned:
                # same length, one byte different: in the last byte before the end, in the second byte, or not at all
                L, a, kk = prof["aligned"][k - (len(bodies) - n_aligned)]
                y = r3.randrange(3)
                mref.func(sig[0], sig[1], aligned_code(L, (a + 1) % 64 if y == 1 else a, (kk + 1) % 64 if y == 0 else kk))
                if y < 2:
                    changed.append(k)
            elif x < 0.25:
                mref.func(sig[0], sig[1], list(code) + ["nop"], locals_=locs)
                changed.append(k)
            elif x < 0.35:
                triv = []
                for t in sig[1]:
                    triv += BodyGen(r2, [], [], False, [], {}).const(t)
                if list(code) == triv:
                    triv = ["nop"] + triv
                mref.func(sig[0], sig[1], triv)
                changed.append(k)
            else:
                mref.func(sig[0], sig[1], code, locals_=locs)
        for _ in range(r2.choice([0, 0, 1, 3])):
            mref.func([I32], [I32], [("local.get", 0), ("i32.const", r2.randrange(1000)), "i32.add"])
        mref.exports = saved_exports
        # identical bodies elsewhere in the module make a changed function static again: report only indices whose
        # new body occurs nowhere in the reference
        with open(os.path.join(outdir, name + ".ref.wasm"), "wb") as f:
            f.write(mref.encode())
        # functions that MUST be classified dynamic against this reference: their encoded body (locals + code) occurs
        # nowhere in the reference module (absolute function indices, i.e. including imported functions)
        def enc(f):
            _, locs, code = f
            return vec([uleb(c) + bytes([t]) for c, t in locs]) + code + b"\x0B"
        refbodies = set(enc(f) for f in mref.funcs)
        must_dyn = [nimp + k for k, f in enumerate(m.funcs) if enc(f) not in refbodies]
        lines.append("%s.wasm %s.ref.wasm %d %d %s" % (name, name, len(bodies), len(data), ",".join(str(c) for c in must_dyn) or "-"))
    # stress modules: thousands of functions, thousands of locals, deep nesting, very long names
    r = random.Random(seed ^ 0x57E55)
    def emit(name, m):
        data = m.encode()
        with open(os.path.join(outdir, name + ".wasm"), "wb") as f:
            f.write(data)
        lines.append("%s.wasm - %d %d -" % (name, len(m.funcs), len(data)))
    m = Module(); m.memory(1)
    for i in range(1500 + r.randrange(200)):
        m.func([I32], [I32], [("local.get", 0), ("i32.const", i), "i32.add"], export=("e%d" % i) if i % 7 == 0 else None)
    emit("m900", m)
    m = Module(); m.memory(1)
    depth = 250 + r.randrange(100)
    body = [("block",)] * depth + [("local.get", 0), ("br_if", depth - 1)] + ["end"] * depth + [("local.get", 0)]
    locs = [(1 + (i % 3), [I32, I64, F32, F64][i % 4]) for i in range(1200)]
    m.func([I32], [I32], body, locals_=locs, export="deep")
    lab = [("loop",)] + [("block",)] * 40 + [("local.get", 0), ("br_table", list(range(41)), 3)] + ["end"] * 41
    m.func([I32], [], lab, export="labels")
    emit("m901", m)
    m = Module(); m.memory(1)
    used = set()
    for i in range(300):
        m.func([], [I32], [("i32.const", i)], export=wild_name(r, used, 3000 + r.randrange(2000), tame=(i % 2 == 0)), nm="n%d" % i)
    emit("m902", m)
    # label-stack growth and reuse: very deep functions in the middle of many shallow ones (several per output file)
    m = Module(); m.memory(1)
    for i in range(6):
        m.func([I32], [I32], [("local.get", 0), ("i32.const", 1000 + i), "i32.xor"])
    for depth in (500 + r.randrange(60), 720 + r.randrange(100), 950 + r.randrange(100)):
        body = [("block",)] * depth + [("local.get", 0), ("br_if", depth - 1), ("local.get", 0), ("br_if", 0)] + ["end"] * depth + [("local.get", 0)]
        m.func([I32], [I32], body, export="deep%d" % depth)
        for i in range(5):
            m.func([I32], [I32], [("block",), ("local.get", 0), ("br_if", 0), "end", ("local.get", 0), ("i32.const", depth + i), "i32.add"])
    nsw = 600 + r.randrange(200)
    sw = [("block",)] * nsw + [("local.get", 0), ("br_table", list(range(nsw - 1)), nsw - 1)] + ["end"] * nsw
    m.func([I32], [], sw, export="switch")
    for i in range(6):
        m.func([I32], [I32], [("loop",), ("local.get", 0), ("br_if", 0), "end", ("i32.const", i)])
    emit("m904", m)
    # deeper still (what a compiler emits for a very large switch), between shallow functions so that -f hands it to a worker thread
    m = Module(); m.memory(1)
    for depth in (2500, 5000):
        for i in range(3):
            m.func([I32], [I32], [("local.get", 0), ("i32.const", depth + i), "i32.xor"])
        body = [("block",)] * depth + [("local.get", 0), ("br_if", depth - 1), ("local.get", 0), ("br_if", 0)] + ["end"] * depth + [("local.get", 0)]
        m.func([I32], [I32], body, export="deep%d" % depth)
    m.func([I32], [I32], [("local.get", 0)])
    emit("m906", m)
    # many functions that are mostly branch tables with different targets (several per output file with -f): state that a worker keeps
    # per instruction must not be visible to another worker
    m = Module(); m.memory(1)
    for i in range(24):
        body = []
        for j in range(3):
            n = 12 + (i * 7 + j * 5) % 30
            targets = [(i * 3 + j + k * (1 + i % 5)) % n for k in range(n + 40)]
            body += [("block",)] * n + [("local.get", 0), ("br_table", targets, (i + j) % n)] + ["end"] * n
        body += [("local.get", 0), ("i32.const", i), "i32.add"]
        m.func([I32], [I32], body, export="bt%d" % i)
    emit("m907", m)
    # pinned module (sweep list of C10 only): nesting deep enough to exhaust any ordinary thread stack - the code generator recurses
    # once per nesting level (reproduces a recorded finding in every run)
    m = Module(); m.memory(1)
    depth = 150000
    m.func([I32], [I32], [("block",)] * depth + [("local.get", 0), ("br_if", depth - 1)] + ["end"] * depth + [("local.get", 0)], export="abyss")
    data = m.encode()
    with open(os.path.join(outdir, "m905.wasm"), "wb") as f:
        f.write(data)
    with open(os.path.join(outdir, "sweep_extra.txt"), "w") as f:
        f.write("m905.wasm - 1 %d -\n" % len(data))
    # pinned module: an import whose module name starts with a digit (reproduces a recorded finding in every run)
    m = Module()
    m.import_func("4tune", "get", [I32], [I32])
    m.memory(1)
    m.func([I32], [I32], [("local.get", 0), ("call", 0)], export="run")
    emit("m903", m)
    with open(os.path.join(outdir, "corpus.txt"), "w") as f:
        f.write("\n".join(lines) + "\n")


if __name__ == "__main__" and len(sys.argv) > 1 and sys.argv[1] == "xlcorpus":
    gen_xlcorpus(sys.argv[2], int(sys.argv[3]), int(sys.argv[4]))


# ---------------------------------------------------------------------------------------------
# E3: 'wasihost' — imports every implemented WASI call from both ABI name spaces with the official
# signatures and exports one forwarder per import (p1_<name>, u_<name>), plus thread-spawn.
WASI_SIGS = [
    ("args_get", "ii", "i"), ("args_sizes_get", "ii", "i"), ("environ_get", "ii", "i"), ("environ_sizes_get", "ii", "i"),
    ("clock_res_get", "ii", "i"), ("clock_time_get", "iji", "i"), ("fd_close", "i", "i"), ("fd_datasync", "i", "i"),
    ("fd_fdstat_get", "ii", "i"), ("fd_filestat_get", "ii", "i"), ("fd_pread", "iiiji", "i"), ("fd_prestat_get", "ii", "i"),
    ("fd_prestat_dir_name", "iii", "i"), ("fd_pwrite", "iiiji", "i"), ("fd_read", "iiii", "i"), ("fd_readdir", "iiiji", "i"),
    ("fd_seek", "ijii", "i"), ("fd_sync", "i", "i"), ("fd_tell", "ii", "i"), ("fd_write", "iiii", "i"),
    ("path_create_directory", "iii", "i"), ("path_filestat_get", "iiiii", "i"), ("path_open", "iiiiijjii", "i"),
    ("path_readlink", "iiiiii", "i"), ("path_remove_directory", "iii", "i"), ("path_rename", "iiiiii", "i"),
    ("path_symlink", "iiiii", "i"), ("path_unlink_file", "iii", "i"), ("random_get", "ii", "i"), ("proc_exit", "i", ""),
]


def gen_wasihost(outdir, with_thread_start=True, name="wasihost"):
    g = Gen(name)
    m = g.m
    imports = []
    for prefix, mod in (("p1", "wasi_snapshot_preview1"), ("u", "wasi_unstable")):
        for nm, ps, rs in WASI_SIGS:
            idx = m.import_func(mod, nm, [TY[c] for c in ps], [TY[c] for c in rs])
            imports.append((prefix + "_" + nm, ps, rs, idx))
    spawn_idx = m.import_func("wasi", "thread-spawn", [I32], [I32])
    imports.append(("thread_spawn", "i", "i", spawn_idx))
    m.memory(32, 32, shared=True, export="memory")
    for ex, ps, rs, idx in imports:
        body = [("local.get", k) for k in range(len(ps))] + [("call", idx)]
        g.add(ex, ps, rs, body, "wasi", "")
    if with_thread_start:
        # wasi_thread_start(tid, arg): counter at 1024 += 1 (atomically); slot[arg] (at 2048 + 4*arg) = tid; sum at 1032 += tid
        body = [("i32.const", 1024), ("i32.const", 1), ("i32.atomic.rmw.add", 0), "drop",
                ("local.get", 1), ("i32.const", 2), "i32.shl", ("local.get", 0), ("i32.atomic.store", 2048),
                ("i32.const", 1032), ("local.get", 0), ("i32.atomic.rmw.add", 0), "drop"]
        m.func([I32, I32], [], body, export="wasi_thread_start")
    os.makedirs(outdir, exist_ok=True)
    with open(os.path.join(outdir, name + ".wasm"), "wb") as f:
        f.write(m.encode())
    with open(os.path.join(outdir, name + "_dispatch.inc"), "w") as f:
        ct = {"i": "U32", "j": "U64"}
        for ex, ps, rs, idx in imports:
            args = "".join(", (%s)a[%d]" % (ct[c], k) for k, c in enumerate(ps))
            call = "%s_%s((%sInstance*)i%s)" % (name, ex, name, args)
            f.write("static U64 d_%s(void* i, const U64* a) { (void)a; %s; }\n" % (ex, ("return " + call) if rs else (call + "; return 0")))
        f.write("const SimDispatch sim_dispatch[] = {\n")
        for ex, ps, rs, idx in imports:
            f.write('  {"%s", %d, d_%s},\n' % (ex, len(ps), ex))
        f.write("  {0, 0, 0}\n};\n")


if __name__ == "__main__" and len(sys.argv) > 1 and sys.argv[1] == "wasihost":
    gen_wasihost(sys.argv[2], True, "wasihost")
    gen_wasihost(sys.argv[2], False, "wasihostnt")


# ---------------------------------------------------------------------------------------------
# C06: 'inst' module family (instantiation state).  The generator is also the reference evaluator: it emits the
# ordered list of resolved active segments, the expected table slots and global values as a C++ include.
def gen_inst(outdir, seed, k):
    r = random.Random(seed * 7919 + k)
    g = Gen("inst")
    m = g.m
    mem_imported = r.random() < 0.5
    tab_imported = r.random() < 0.4
    has_start = r.random() < 0.7
    use_goff = r.random() < 0.7
    use_ginit = r.random() < 0.6
    shared = (not mem_imported) and r.random() < 0.25
    goff_val = r.choice([0, 1, 16, 100, 4000])
    ginit_val = r.getrandbits(64)
    mem_min = r.choice([1, 1, 2]); mem_max = 4
    # stratum that random choice reaches too rarely: imported memory whose data segments are all passive, embedded through the
    # external mode (variant numbers with k % 3 == 2 are translated with -d gnu-ld)
    only_passive = (k % 8 == 5)
    if only_passive:
        mem_imported = True; shared = False
    hook = m.import_func("env", "hook", [I32], []) if has_start else None
    # import names as toolchains produce them: double underscores, dots, dashes, '$', the letter X (the translator's
    # escape character); the resolver must be asked for exactly these strings
    rn = random.Random(seed * 104729 + k)
    plain = rn.random() < 0.35
    def pick(*names):
        return names[0] if plain else rn.choice(names)
    names = {"mem": (pick("env", "env", "GOT.mem", "__main__"), pick("mem", "__linear_memory", "memory.0", "Xmem")),
             "tab": (pick("env", "env", "GOT.func", "js-env"), pick("tab", "__indirect_function_table", "t-1", "table$X")),
             "goff": (pick("env", "env", "GOT.mem", "a__b"), pick("goff", "__memory_base", "g.off", "goff__x")),
             "ginit": (pick("env", "env", "__main__", "Xenv"), pick("ginit", "__stack_pointer", "gXinit$", "g init"))}
    if not plain and rn.random() < 0.4:
        # consecutive imports whose module names are a name and a proper prefix of it (mem/tab come before goff/ginit)
        names["goff"] = ("env", names["goff"][1]); names["ginit"] = ("en", names["ginit"][1])
        names["tab"] = ("env2", names["tab"][1]); names["mem"] = ("env2x", names["mem"][1])
    if mem_imported:
        m.import_memory(names["mem"][0], names["mem"][1], mem_min, mem_max)
    if tab_imported:
        m.import_table(names["tab"][0], names["tab"][1], 8, 8)
    goff = m.import_global(names["goff"][0], names["goff"][1], I32, False) if use_goff else None
    ginit = m.import_global(names["ginit"][0], names["ginit"][1], I64, False) if use_ginit else None
    if not mem_imported:
        m.memory(mem_min, mem_max, shared=shared, export="memory")
    if not tab_imported:
        m.table(8, 8)
    g0_init = r.choice([0, 5, 0x7FFFFFFF, 0xFFFFFFFF, r.getrandbits(32)])
    G0 = m.global_(I32, True, [("i32.const", g0_init)])
    G1 = m.global_(I64, True, [("global.get", ginit)] if use_ginit else [("i64.const", 0x1122334455667788)])
    g2_bits = r.choice([0x7FC00000, 0x7FA00001, 0xFFC12345, 0x80000000, 0x3F800000, 0x7F800000, 1])
    G2 = m.global_(F32, False, [("f32.const", g2_bits)])
    GS = m.global_(I32, True, [("i32.const", 0)])
    # table functions
    tf = [m.func([], [I32], [("i32.const", 100 + j)]) for j in range(4)]
    tt = m.type([], [I32])
    # data segments (resolved against goff_val by this generator)
    size = mem_min * 65536
    segs = []
    nseg = r.choice([0, 1, 2, 3, 5])
    if only_passive:
        nseg = 0
    for j in range(nseg):
        kind = r.random()
        ln = r.choice([0, 1, 3, 8, 40])
        payload = bytes(r.randrange(1, 256) for _ in range(ln))
        if kind < 0.2 and segs and segs[-1][1]:
            # all-zero segment overlapping the previous one
            prev = segs[-1]
            off = prev[0] + min(1, len(prev[1]) - 1); payload = bytes(max(1, min(3, len(prev[1]) - 1)))
            segs.append((off, payload, ("i32.const", off)))
        elif kind < 0.4 and use_goff:
            segs.append((goff_val, payload, ("global.get", goff)))
        elif kind < 0.5:
            off = size - ln
            segs.append((off, payload, ("i32.const", off)))
        elif kind < 0.7 and segs:
            off = max(0, segs[-1][0] + r.choice([-2, 0, 1, 2]))
            segs.append((off, payload, ("i32.const", off)))
        else:
            off = r.choice([0, 7, 64, 1000, 30000])
            segs.append((off, payload, ("i32.const", off)))
    # keep every active segment inside the initial memory (an out-of-bounds segment makes instantiation trap)
    fixed = []
    for off, payload, expr in segs:
        if off + len(payload) > size:
            if expr[0] == "global.get":
                payload = payload[:max(0, size - off)]
            else:
                off = size - len(payload); expr = ("i32.const", off)
        fixed.append((off, payload, expr))
    segs = fixed
    passive = bytes(r.randrange(256) for _ in range(24))
    passive_index = r.randrange(0, len(segs) + 1)       # the passive segment sits anywhere among the active ones
    for j, (off, payload, expr) in enumerate(segs):
        if j == passive_index:
            m.data_passive(passive)
        m.data_active([expr], payload)
    if passive_index == len(segs):
        m.data_passive(passive)
    # element segments
    tab = [-1] * 8
    elems = []
    for j in range(r.choice([0, 1, 2, 3])):
        n = r.choice([0, 1, 2, 3])
        fs = [r.choice(tf) for _ in range(n)]
        if use_goff and goff_val + n <= 8 and r.random() < 0.4:
            off = goff_val; expr = ("global.get", goff)
        else:
            off = r.randrange(0, 8 - n + 1); expr = ("i32.const", off)
        elems.append((off, fs))
        m.elem([expr], fs)
        for q, f in enumerate(fs):
            tab[off + q] = 100 + tf.index(f)
    hook_addr = segs[0][0] if segs and segs[0][1] else 500
    if has_start:
        st = m.func([], [], [("i32.const", hook_addr), ("i32.load8_u", 0), ("call", hook),
                             ("global.get", GS), ("i32.const", 1), "i32.add", ("global.set", GS),
                             ("i32.const", 600), ("i32.const", 0xAB), ("i32.store8", 0)])
        m.start = st
    g.add("get_g0", "", "i", [("global.get", G0)], "get")
    g.add("set_g0", "i", "", [("local.get", 0), ("global.set", G0)], "set")
    g.add("get_g1", "", "j", [("global.get", G1)], "get")
    g.add("set_g1", "j", "", [("local.get", 0), ("global.set", G1)], "set")
    g.add("get_g2", "", "i", [("global.get", G2), "i32.reinterpret_f32"], "get")
    # one function exported under two names, and (with a start function) the imported host function exported again
    g2_index = m.n_imp_funcs + len(m.funcs) - 1
    m.exports.append(("get_g2_alias", 0, g2_index))
    g.table.append(("get_g2_alias", "_i", "get", ""))
    extra_export_names = ["get_g2_alias"]
    if has_start:
        m.exports.append(("hook_again", 0, hook))
        extra_export_names.append("hook_again")
    g.add("started", "", "i", [("global.get", GS)], "get")
    g.add("load8", "i", "i", [("local.get", 0), ("i32.load8_u", 0)], "load")
    g.add("store8", "ii", "", [("local.get", 0), ("local.get", 1), ("i32.store8", 0)], "store")
    g.add("size", "", "i", ["memory.size"], "size")
    g.add("grow", "i", "i", [("local.get", 0), "memory.grow"], "grow")
    g.add("calli", "i", "i", [("local.get", 0), ("call_indirect", tt)], "calli")
    g.add("minit", "iii", "", [("local.get", 0), ("local.get", 1), ("local.get", 2), ("memory.init", passive_index)], "init")
    g.write(outdir)
    with open(os.path.join(outdir, "inst_names.h"), "w") as f:
        for key in ("mem", "tab", "goff", "ginit"):
            cstr = lambda t: '"' + "".join(c if c.isalnum() or c in "_.-$ " else "\\x%02x" % ord(c) for c in t) + '"'
            f.write("#define N_%s_MOD %s\n#define N_%s %s\n" % (key.upper(), cstr(names[key][0]), key.upper(), cstr(names[key][1])))
    with open(os.path.join(outdir, "inst_desc.inc"), "w") as f:
        f.write("static const char* const D_FUNC_EXPORT_NAMES = \"%s\";\n" % " ".join([t[0] for t in g.table if t[0] not in extra_export_names] + extra_export_names))
        f.write("static const char* const D_IMPORT_NAMES = \"%s\";\n" % " ".join("%s=%s/%s" % (k2, names[k2][0], names[k2][1]) for k2 in ("mem", "tab", "goff", "ginit")))
        f.write("static const int D_MEM_IMPORTED = %d, D_TAB_IMPORTED = %d, D_HAS_START = %d, D_USE_GOFF = %d, D_USE_GINIT = %d, D_SHARED = %d;\n" % (mem_imported, tab_imported, has_start, use_goff, use_ginit, shared))
        f.write("static const unsigned D_MEM_MIN = %d, D_MEM_MAX = %d, D_GOFF = %d, D_G0 = %du, D_G2_BITS = %du, D_HOOK_ADDR = %d;\n" % (mem_min, mem_max, goff_val, g0_init, g2_bits, hook_addr))
        f.write("static const unsigned long long D_GINIT = %dull, D_G1_CONST = 0x1122334455667788ull;\n" % ginit_val)
        f.write("static const struct { unsigned addr, len; const char* bytes; } D_SEGS[] = {\n")
        for off, payload, expr in segs:
            f.write('  {%d, %d, "%s"},\n' % (off, len(payload), "".join("\\x%02x" % b for b in payload)))
        f.write("  {0, 0, 0}\n};\nstatic const int D_NSEGS = %d;\n" % len(segs))
        f.write('static const char D_PASSIVE[] = "%s";\nstatic const int D_PASSIVE_LEN = %d;\n' % ("".join("\\x%02x" % b for b in passive), len(passive)))
        f.write("static const struct { int off, n; int vals[4]; } D_ELEMS[] = {\n")
        for off, fs in elems:
            f.write("  {%d, %d, {%s}},\n" % (off, len(fs), ", ".join(str(100 + tf.index(x)) for x in fs) or "0"))
        f.write("  {0, -1, {0}}\n};\n")


if __name__ == "__main__" and len(sys.argv) > 1 and sys.argv[1] == "inst":
    gen_inst(sys.argv[2], int(sys.argv[3]), int(sys.argv[4]))


# C19 (auxiliary): each module twice - as is, and with every f32/f64 immediate byte-reversed
def gen_becorpus(outdir, seed, count):
    import wasmenc
    os.makedirs(outdir, exist_ok=True)
    rnd = random.Random(seed ^ 0xBE)
    for i in range(count):
        ms = rnd.getrandbits(64)
        out = []
        for rev in (False, True):
            # instructions are encoded when they are added: build the module twice from the same random stream
            wasmenc.FLOAT_IMM_REVERSED = rev
            r = random.Random(ms)
            prof = {"nfuncs": r.choice([1, 3, 8, 20]), "mem": r.random() < 0.7, "table": r.random() < 0.5, "names": False, "tame": True,
                    "dup": 0.0, "export_p": 0.5, "maxname": 10, "sizes": [1, 2, 3, 6, 15]}
            m, bodies, sigs, nimp = gen_xl_module(r, prof)
            # make sure float globals with constant initialisers are present (their initialiser is decoded more than once)
            m.global_(F32, False, [("f32.const", r.getrandbits(32))])
            m.global_(F64, True, [("f64.const", r.getrandbits(64))])
            out.append(m.encode())
        wasmenc.FLOAT_IMM_REVERSED = False
        with open(os.path.join(outdir, "b%03d.wasm" % i), "wb") as f:
            f.write(out[0])
        with open(os.path.join(outdir, "b%03d.rev.wasm" % i), "wb") as f:
            f.write(out[1])


if __name__ == "__main__" and len(sys.argv) > 1 and sys.argv[1] == "becorpus":
    gen_becorpus(sys.argv[2], int(sys.argv[3]), int(sys.argv[4]))
