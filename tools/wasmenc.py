"""Minimal WebAssembly binary encoder (wabt is not installed in the sandbox).

Only what the verification modules need: types, imports, functions, tables, memories (incl. shared),
globals, exports, start, element and data segments (active/passive), data-count, name section,
and an instruction assembler driven by small tuples.
"""
import struct

# when set, f32/f64 immediates are written byte-reversed (what a reader that assumes the opposite byte order sees)
FLOAT_IMM_REVERSED = False

I32, I64, F32, F64 = 0x7F, 0x7E, 0x7D, 0x7C
FUNCREF = 0x70


def uleb(n):
    out = bytearray()
    while True:
        b = n & 0x7F
        n >>= 7
        if n:
            out.append(b | 0x80)
        else:
            out.append(b)
            return bytes(out)


def sleb(n):
    out = bytearray()
    while True:
        b = n & 0x7F
        n >>= 7
        if (n == 0 and not (b & 0x40)) or (n == -1 and (b & 0x40)):
            out.append(b)
            return bytes(out)
        out.append(b | 0x80)


def vec(items):
    return uleb(len(items)) + b"".join(items)


def name(s):
    b = s.encode("utf-8") if isinstance(s, str) else s
    return uleb(len(b)) + b


def limits(mn, mx=None, shared=False):
    if shared:
        return bytes([0x03]) + uleb(mn) + uleb(mx)
    if mx is None:
        return bytes([0x00]) + uleb(mn)
    return bytes([0x01]) + uleb(mn) + uleb(mx)


# ---- instructions ---------------------------------------------------------
OPS = {
    "unreachable": 0x00, "nop": 0x01, "block": 0x02, "loop": 0x03, "if": 0x04, "else": 0x05, "end": 0x0B,
    "br": 0x0C, "br_if": 0x0D, "return": 0x0F, "call": 0x10, "call_indirect": 0x11, "drop": 0x1A, "select": 0x1B,
    "local.get": 0x20, "local.set": 0x21, "local.tee": 0x22, "global.get": 0x23, "global.set": 0x24,
    "i32.load": 0x28, "i64.load": 0x29, "f32.load": 0x2A, "f64.load": 0x2B,
    "i32.load8_s": 0x2C, "i32.load8_u": 0x2D, "i32.load16_s": 0x2E, "i32.load16_u": 0x2F,
    "i64.load8_s": 0x30, "i64.load8_u": 0x31, "i64.load16_s": 0x32, "i64.load16_u": 0x33,
    "i64.load32_s": 0x34, "i64.load32_u": 0x35,
    "i32.store": 0x36, "i64.store": 0x37, "f32.store": 0x38, "f64.store": 0x39,
    "i32.store8": 0x3A, "i32.store16": 0x3B, "i64.store8": 0x3C, "i64.store16": 0x3D, "i64.store32": 0x3E,
    "memory.size": 0x3F, "memory.grow": 0x40,
    "i32.const": 0x41, "i64.const": 0x42, "f32.const": 0x43, "f64.const": 0x44,
    "i32.eqz": 0x45, "i32.eq": 0x46, "i32.ne": 0x47, "i32.lt_s": 0x48, "i32.lt_u": 0x49,
    "i32.add": 0x6A, "i32.sub": 0x6B, "i32.mul": 0x6C, "i32.and": 0x71, "i32.or": 0x72, "i32.xor": 0x73,
    "i32.shl": 0x74, "i32.shr_u": 0x76, "i32.rotl": 0x77,
    "i64.add": 0x7C, "i64.sub": 0x7D, "i64.mul": 0x7E, "i64.xor": 0x85,
    "i32.gt_s": 0x4A, "i32.le_u": 0x4D, "i32.ge_s": 0x4E, "i64.eqz": 0x50, "i64.eq": 0x51, "i64.ne": 0x52, "i64.lt_s": 0x53,
    "i32.clz": 0x67, "i32.ctz": 0x68, "i32.popcnt": 0x69, "i32.shr_s": 0x75, "i32.rotr": 0x78,
    "i64.clz": 0x79, "i64.and": 0x83, "i64.or": 0x84, "i64.shl": 0x86, "i64.shr_u": 0x88, "i64.rotl": 0x89,
    "f32.abs": 0x8B, "f32.neg": 0x8C, "f32.sub": 0x93, "f32.mul": 0x94, "f32.min": 0x96,
    "f64.abs": 0x99, "f64.neg": 0x9A, "f64.sub": 0xA1, "f64.mul": 0xA2, "f64.max": 0xA5,
    "f32.convert_i32_s": 0xB2, "f32.demote_f64": 0xB6, "f64.convert_i32_s": 0xB7, "f64.convert_i64_u": 0xBA, "f64.promote_f32": 0xBB,
    "f32.eq": 0x5B, "f32.lt": 0x5D, "f64.eq": 0x61, "f64.gt": 0x64,
    "i32.wrap_i64": 0xA7, "i64.extend_i32_u": 0xAD, "i64.extend_i32_s": 0xAC,
    "f32.add": 0x92, "f64.add": 0xA0, "f32.reinterpret_i32": 0xBE, "f64.reinterpret_i64": 0xBF,
    "i32.reinterpret_f32": 0xBC, "i64.reinterpret_f64": 0xBD,
}
PLAIN_LOADS = ["i32.load", "i64.load", "f32.load", "f64.load", "i32.load8_s", "i32.load8_u", "i32.load16_s",
               "i32.load16_u", "i64.load8_s", "i64.load8_u", "i64.load16_s", "i64.load16_u", "i64.load32_s",
               "i64.load32_u"]
PLAIN_STORES = ["i32.store", "i64.store", "f32.store", "f64.store", "i32.store8", "i32.store16", "i64.store8",
                "i64.store16", "i64.store32"]
MEMOPS = set(PLAIN_LOADS + PLAIN_STORES)

# threads proposal, prefix 0xFE
ATOMIC = {
    "memory.atomic.notify": 0x00, "memory.atomic.wait32": 0x01, "memory.atomic.wait64": 0x02, "atomic.fence": 0x03,
    "i32.atomic.load": 0x10, "i64.atomic.load": 0x11, "i32.atomic.load8_u": 0x12, "i32.atomic.load16_u": 0x13,
    "i64.atomic.load8_u": 0x14, "i64.atomic.load16_u": 0x15, "i64.atomic.load32_u": 0x16,
    "i32.atomic.store": 0x17, "i64.atomic.store": 0x18, "i32.atomic.store8": 0x19, "i32.atomic.store16": 0x1A,
    "i64.atomic.store8": 0x1B, "i64.atomic.store16": 0x1C, "i64.atomic.store32": 0x1D,
}
_rmw_ops = ["add", "sub", "and", "or", "xor", "xchg", "cmpxchg"]
_rmw_forms = ["i32.atomic.rmw.%s", "i64.atomic.rmw.%s", "i32.atomic.rmw8.%s_u", "i32.atomic.rmw16.%s_u",
              "i64.atomic.rmw8.%s_u", "i64.atomic.rmw16.%s_u", "i64.atomic.rmw32.%s_u"]
_code = 0x1E
for _op in _rmw_ops:
    for _f in _rmw_forms:
        ATOMIC[_f % _op] = _code
        _code += 1
# bulk memory, prefix 0xFC
BULK = {"memory.init": 8, "data.drop": 9, "memory.copy": 10, "memory.fill": 11}


def natural_align(op):
    """log2 of access width for a memory instruction name."""
    if op.startswith("memory.atomic.wait64"):
        return 3
    if op.startswith("memory.atomic."):
        return 2
    base = op.split(".")
    ty = base[0]
    tail = base[-1] if "atomic" not in op else op
    for w, a in (("8", 0), ("16", 1), ("32", 2)):
        if ("load" + w) in op or ("store" + w) in op or ("rmw" + w) in op:
            return a
    return 2 if ty in ("i32", "f32") else 3


def assemble(instrs):
    """instrs: list of tuples (op, *immediates).  Memory ops take (op, offset[, align])."""
    out = bytearray()
    for ins in instrs:
        if isinstance(ins, str):
            ins = (ins,)
        op = ins[0]
        if op in ATOMIC:
            out += b"\xFE" + uleb(ATOMIC[op])
            if op == "atomic.fence":
                out += b"\x00"
            else:
                off = ins[1] if len(ins) > 1 else 0
                al = ins[2] if len(ins) > 2 else natural_align(op)
                out += uleb(al) + uleb(off)
        elif op in BULK:
            out += b"\xFC" + uleb(BULK[op])
            if op == "memory.init":
                out += uleb(ins[1]) + b"\x00"
            elif op == "data.drop":
                out += uleb(ins[1])
            elif op == "memory.copy":
                out += b"\x00\x00"
            elif op == "memory.fill":
                out += b"\x00"
        elif op in MEMOPS:
            off = ins[1] if len(ins) > 1 else 0
            al = ins[2] if len(ins) > 2 else natural_align(op)
            out += bytes([OPS[op]]) + uleb(al) + uleb(off)
        elif op in ("block", "loop", "if"):
            bt = ins[1] if len(ins) > 1 else 0x40
            out += bytes([OPS[op], bt])
        elif op in ("br", "br_if", "call", "local.get", "local.set", "local.tee", "global.get", "global.set"):
            out += bytes([OPS[op]]) + uleb(ins[1])
        elif op == "call_indirect":
            out += bytes([OPS[op]]) + uleb(ins[1]) + uleb(ins[2] if len(ins) > 2 else 0)
        elif op == "br_table":
            out += b"\x0E" + vec([uleb(x) for x in ins[1]]) + uleb(ins[2])
        elif op == "i32.const":
            v = ins[1]
            if v >= 1 << 31:
                v -= 1 << 32
            out += bytes([0x41]) + sleb(v)
        elif op == "i64.const":
            v = ins[1]
            if v >= 1 << 63:
                v -= 1 << 64
            out += bytes([0x42]) + sleb(v)
        elif op == "f32.const":
            out += bytes([0x43]) + struct.pack(">I" if FLOAT_IMM_REVERSED else "<I", ins[1])   # raw bits
        elif op == "f64.const":
            out += bytes([0x44]) + struct.pack(">Q" if FLOAT_IMM_REVERSED else "<Q", ins[1])   # raw bits
        elif op in ("memory.size", "memory.grow"):
            out += bytes([OPS[op], 0x00])
        elif op == "raw":
            out += bytes(ins[1])
        else:
            out += bytes([OPS[op]])
    return bytes(out)


class Module:
    def __init__(self):
        self.types = []          # (params, results)
        self.imports = []        # (module, name, kind, desc_bytes)
        self.n_imp_funcs = 0
        self.n_imp_globals = 0
        self.funcs = []          # (type_index, locals[(count,type)], body_bytes)
        self.tables = []
        self.mems = []
        self.globals = []        # (type, mutable, init_expr_bytes)
        self.exports = []        # (name, kind, index)
        self.start = None
        self.elems = []          # (table, offset_expr_bytes, [func indices])
        self.datas = []          # ('active', offset_expr_bytes, bytes) | ('passive', None, bytes)
        self.func_names = {}
        self.customs = []        # (name, bytes, position) position: 'start'|'end'
        self.data_count = False
        self.name_pos = "end"      # or "after_import": custom sections may appear between any two sections

    def type(self, params, results):
        t = (tuple(params), tuple(results))
        if t in self.types:
            return self.types.index(t)
        self.types.append(t)
        return len(self.types) - 1

    def import_func(self, mod, nm, params, results):
        assert not self.funcs, "imports must precede definitions"
        ti = self.type(params, results)
        self.imports.append((mod, nm, 0, uleb(ti)))
        self.n_imp_funcs += 1
        return self.n_imp_funcs - 1

    def import_memory(self, mod, nm, mn, mx=None, shared=False):
        self.imports.append((mod, nm, 2, limits(mn, mx, shared)))

    def import_table(self, mod, nm, mn, mx=None):
        self.imports.append((mod, nm, 1, bytes([FUNCREF]) + limits(mn, mx)))

    def import_global(self, mod, nm, ty, mutable=False):
        self.imports.append((mod, nm, 3, bytes([ty, 1 if mutable else 0])))
        self.n_imp_globals += 1
        return self.n_imp_globals - 1

    def func(self, params, results, body, locals_=(), export=None, nm=None):
        ti = self.type(params, results)
        code = assemble(body) if not isinstance(body, (bytes, bytearray)) else bytes(body)
        self.funcs.append((ti, list(locals_), code))
        idx = self.n_imp_funcs + len(self.funcs) - 1
        if export:
            self.exports.append((export, 0, idx))
        if nm:
            self.func_names[idx] = nm
        return idx

    def memory(self, mn, mx=None, shared=False, export=None):
        self.mems.append(limits(mn, mx, shared))
        if export:
            self.exports.append((export, 2, 0))

    def table(self, mn, mx=None, export=None):
        self.tables.append(bytes([FUNCREF]) + limits(mn, mx))
        if export:
            self.exports.append((export, 1, 0))

    def global_(self, ty, mutable, init, export=None):
        self.globals.append((ty, mutable, assemble(init) + b"\x0B"))
        idx = self.n_imp_globals + len(self.globals) - 1
        if export:
            self.exports.append((export, 3, idx))
        return idx

    def data_active(self, offset_instrs, payload):
        self.datas.append(("active", assemble(offset_instrs) + b"\x0B", bytes(payload)))

    def data_passive(self, payload):
        self.datas.append(("passive", None, bytes(payload)))
        self.data_count = True

    def elem(self, offset_instrs, funcs, table=0):
        self.elems.append((table, assemble(offset_instrs) + b"\x0B", list(funcs)))

    def section(self, sid, payload):
        return bytes([sid]) + uleb(len(payload)) + payload

    def encode(self):
        out = bytearray(b"\x00asm\x01\x00\x00\x00")
        for nm, payload, pos in self.customs:
            if pos == "start":
                out += self.section(0, name(nm) + payload)
        if self.types:
            out += self.section(1, vec([b"\x60" + vec([bytes([p]) for p in ps]) + vec([bytes([r]) for r in rs])
                                         for ps, rs in self.types]))
        if self.imports:
            out += self.section(2, vec([name(m) + name(n) + bytes([k]) + d for m, n, k, d in self.imports]))
        if self.func_names and self.name_pos == "after_import":
            sub = vec([uleb(i) + name(n) for i, n in sorted(self.func_names.items())])
            out += self.section(0, name("name") + bytes([1]) + uleb(len(sub)) + sub)
        if self.funcs:
            out += self.section(3, vec([uleb(ti) for ti, _, _ in self.funcs]))
        if self.tables:
            out += self.section(4, vec(self.tables))
        if self.mems:
            out += self.section(5, vec(self.mems))
        if self.globals:
            out += self.section(6, vec([bytes([t, 1 if m else 0]) + e for t, m, e in self.globals]))
        if self.exports:
            out += self.section(7, vec([name(n) + bytes([k]) + uleb(i) for n, k, i in self.exports]))
        if self.start is not None:
            out += self.section(8, uleb(self.start))
        if self.elems:
            out += self.section(9, vec([(b"\x00" if t == 0 else b"\x02" + uleb(t)) + e +
                                         (b"" if t == 0 else b"\x00") + vec([uleb(f) for f in fs])
                                         for t, e, fs in self.elems]))
        if self.data_count:
            out += self.section(12, uleb(len(self.datas)))
        if self.funcs:
            bodies = []
            for _, locs, code in self.funcs:
                b = vec([uleb(c) + bytes([t]) for c, t in locs]) + code + b"\x0B"
                bodies.append(uleb(len(b)) + b)
            out += self.section(10, vec(bodies))
        if self.datas:
            ds = []
            for kind, off, payload in self.datas:
                if kind == "active":
                    ds.append(b"\x00" + off + uleb(len(payload)) + payload)
                else:
                    ds.append(b"\x01" + uleb(len(payload)) + payload)
            out += self.section(11, vec(ds))
        if self.func_names and self.name_pos != "after_import":
            sub = vec([uleb(i) + name(n) for i, n in sorted(self.func_names.items())])
            out += self.section(0, name("name") + bytes([1]) + uleb(len(sub)) + sub)
        for nm, payload, pos in self.customs:
            if pos == "end":
                out += self.section(0, name(nm) + payload)
        return bytes(out)
