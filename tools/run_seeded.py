#!/usr/bin/env python3
"""Runs the claimed check of every seeded change in /verif/seeded against a scratch worktree of /repo HEAD + the change and
records the outcome in its meta.json (caught_by: list of violation signatures; empty = missed)."""
import os, sys, json, subprocess, re, shutil
V = os.path.dirname(os.path.dirname(os.path.abspath(__file__)))
only = sys.argv[1:]
for name in sorted(os.listdir(os.path.join(V, "seeded"))):
    if only and name not in only:
        continue
    d = os.path.join(V, "seeded", name)
    meta_p = os.path.join(d, "meta.json")
    meta = json.load(open(meta_p))
    prop = name.split("-")[0]
    patch = os.path.join(d, "patch.rebased.diff")
    if not os.path.exists(patch):
        patch = os.path.join(d, "patch.diff")
    wt = "/tmp/wt/seedrun-%s" % name
    subprocess.run(["git", "-C", "/repo", "worktree", "remove", "--force", wt], stderr=subprocess.DEVNULL)
    subprocess.check_call(["git", "-C", "/repo", "worktree", "add", "-q", "--detach", wt, "HEAD"])
    try:
        r = subprocess.run(["git", "-C", wt, "apply", "--3way", patch], stderr=subprocess.PIPE)
        if r.returncode != 0:
            r2 = subprocess.run("cd %s && patch -p1 --no-backup-if-mismatch < %s" % (wt, patch), shell=True, stdout=subprocess.PIPE, stderr=subprocess.STDOUT)
            if r2.returncode != 0:
                meta["check_result"] = {"applies_to_head": False}
                json.dump(meta, open(meta_p, "w"), indent=1)
                print(name, "DOES NOT APPLY")
                continue
        env = dict(os.environ, VERIF_REPO=wt)
        if os.environ.get("SEEDED_FAST"):
            env["VERIF_FAST_VIOLATIONS"] = "1"      # regression mode: first signature only, no minimisation
        # a change seeded for one property may be the business of another property's check (meta.json "check_props")
        props = meta.get("check_props", [prop])
        sigs, out = [], ""
        for pr in props:
            out = subprocess.run([os.path.join(V, "check"), pr], cwd=V, env=env, stdout=subprocess.PIPE, stderr=subprocess.STDOUT).stdout.decode(errors="replace")
            sigs += re.findall(r"^  signature: (\S+)", out, re.M) + re.findall(r"^note: further new signature (\S+)", out, re.M)
        meta["check_result"] = {"cmd": "VERIF_REPO=<scratch worktree of /repo HEAD + patch> ./check %s --tier quick" % " / ".join(props), "caught": bool(sigs), "caught_by": sigs[:8],
                                "summary_line": out.strip().splitlines()[-1][:200] if out.strip() else ""}
        json.dump(meta, open(meta_p, "w"), indent=1)
        print(name, "CAUGHT" if sigs else "MISSED", sigs[:3])
    finally:
        subprocess.run(["git", "-C", "/repo", "worktree", "remove", "--force", wt])
        # the check wrote evidence/replays for the scratch tree: restore the committed evidence
        subprocess.run(["git", "-C", V, "checkout", "--", "evidence"], stderr=subprocess.DEVNULL)
