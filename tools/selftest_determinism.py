#!/usr/bin/env python3
"""Determinism self-test: every claimed check is executed three times with the same seed (16 workers, 16 workers again,
3 workers); the per-run event-log hashes, interleaving hashes, verdicts and output hashes must be identical."""
import os, sys, subprocess, json, tempfile
V = os.path.dirname(os.path.dirname(os.path.abspath(__file__)))
props = sys.argv[1:] or [c["property_id"] for c in json.load(open(os.path.join(V, "MANIFEST.json")))["checks"]]
runs = os.environ.get("SELFTEST_RUNS", "4000")
bad = 0
for p in props:
    dumps = []
    for workers in ("16", "16", "3"):
        f = tempfile.mktemp(prefix="verif-selftest-")
        env = dict(os.environ, VERIF_RUNS=runs, VERIF_WORKERS=workers, VERIF_DUMP_HASHES=f, VERIF_SEED="4242")
        subprocess.run([os.path.join(V, "check"), p], cwd=V, env=env, stdout=subprocess.DEVNULL, stderr=subprocess.DEVNULL)
        dumps.append(open(f).read() if os.path.exists(f) else "")
        if os.path.exists(f):
            os.unlink(f)
    n = len(dumps[0].splitlines())
    ok = dumps[0] == dumps[1] == dumps[2] and n > 0
    print("%s: %d runs x 3 executions (16/16/3 workers): %s" % (p, n, "identical" if ok else "DIFFER"))
    if not ok:
        bad += 1
        a, b, c = [d.splitlines() for d in dumps]
        for x, y in list(zip(a, b))[:0] + [(x, y) for x, y in zip(a, c) if x != y][:3]:
            print("   ", x, "|", y)
subprocess.run(["git", "-C", V, "checkout", "--", "evidence"], stderr=subprocess.DEVNULL)
sys.exit(1 if bad else 0)
