#!/bin/bash
# usage: try_patch.sh <patch.diff> <prop> [runs]   -- runs the property's check against a scratch worktree of /repo HEAD + patch
set -u
PATCH=$1; PROP=$2; RUNS=${3:-}
WT=/tmp/wt/try-$$
git -C /repo worktree add -q --detach $WT HEAD || exit 3
if ! git -C $WT apply --3way $PATCH 2>/tmp/wt/apply-$$.log; then
  if ! (cd $WT && patch -p1 --no-backup-if-mismatch < $PATCH >>/tmp/wt/apply-$$.log 2>&1); then
    echo "PATCH DOES NOT APPLY"; cat /tmp/wt/apply-$$.log; git -C /repo worktree remove --force $WT; exit 3
  fi
fi
git -C $WT diff --stat | tail -1
if [ -n "$RUNS" ]; then export VERIF_RUNS=$RUNS; fi
(cd /verif && VERIF_REPO=$WT ./check $PROP 2>&1 | cut -c1-600 | tail -12)
rc=$?
git -C /repo worktree remove --force $WT
rm -f /tmp/wt/apply-$$.log
