#!/bin/bash
# usage: collect_round.sh <outbase> <suffix> <ids...>  -- verify agent deliverables and store them as seeded/<id>-<suffix>
OUTBASE=$1; SUF=$2; shift 2
for id in "$@"; do
  line=$(OUTBASE=$OUTBASE /verif/tools/verify_seed.sh $id $OUTBASE/out-$id/patch.diff HEAD | tail -1)
  echo "$line"
  case "$line" in *"build=ok tests=pass demo_patched_exit=1 demo_clean_exit=0"*) ;; *) echo "  NOT STORED: $id"; continue;; esac
  d=/verif/seeded/$id-$SUF; mkdir -p $d; cp $OUTBASE/out-$id/patch.diff $d/patch.diff; rm -rf $d/demo; cp -r $OUTBASE/out-$id/demo $d/demo
  python3 - "$id" "$d" "$line" "$OUTBASE" <<'PY'
import json,sys,subprocess
id,d,line,ob=sys.argv[1:5]
try: m=json.load(open('%s/out-%s/meta.json'%(ob,id)))
except Exception as e: m={"property":id,"summary":"(agent meta.json unreadable: %s)"%e}
h=subprocess.check_output(['git','-C','/repo','log','--format=%h','-1']).decode().strip()
m["base_commit"]="%s (/repo HEAD including all fix: commits up to then)"%h
m["verified_by_me"]={"cmd":"OUTBASE=%s tools/verify_seed.sh %s <patch> HEAD"%(ob,id),"result":line}
json.dump(m,open(d+'/meta.json','w'),indent=1)
PY
done
