#!/usr/bin/env python3
"""Regenerates MANIFEST.json from the tables below (keeps it valid and in one place)."""
import json, subprocess, os
V = os.path.dirname(os.path.dirname(os.path.abspath(__file__)))

def fixes():
    out = subprocess.check_output(["git", "-C", "/repo", "log", "--format=%h %s"]).decode().splitlines()
    return [l.split()[0] for l in out if l.split(" ", 1)[1].startswith("fix:")]

NA = [
 ("C01", "pure function of module x operands: no schedule, clock, fault or history for a simulator to control"),
 ("C02", "pure function of module x operand bit patterns"),
 ("C03", "pure function of function body x arguments (single sequential activation)"),
 ("C04", "call resolution is fixed at translation time; no interleaving or fault can change the callee"),
 ("C07", "literal round-tripping is a pure function of the immediate's bits"),
 ("C08", "equivalence of byte encodings is a pure function of the input file"),
 ("C11", "compiler x optimisation-level matrix over pure programs; no simulated schedule or fault can decide it"),
]
E1 = "E1 simrt: generated C + w2c2_base.h + futex/*.c under the simcore baton scheduler (simulated pthread objects/clock/allocator faults), clang ASan+UBSan, preemption at every instrumented load/store/atomic"
CHECKS = {
 "C05": dict(engine="simrt", cat="exploration", tech="deterministic simulation: seeded operation histories with injected allocation failures, checked op-by-op against a byte-array reference model",
   text="Seeded histories (20-120 ops) of every load/store flavour, 18 composite functions (store; store of another type or width; load at one address), size, grow (incl. limits and wrap-around deltas, injected realloc failure), copy/fill/init on the real generated code; after every operation results, page count and the whole memory are compared with a byte-array model. On the shared-memory module a concurrent phase runs the accesses (confined to page 0) on one simulated thread and the grows/size queries on another, judged per thread in program order and on the final memory. Exploration of the history/fault half of the property over one generated module family, not translation validation of arbitrary programs.",
   note="only in-bounds accesses are generated; model is little-endian byte array; three generated modules (mem: non-shared 1..8 pages with passive and zero-tailed overlapping active segments, built four ways; atom: shared memory 1..6 pages; memnomax: no declared maximum, grown to the 65535/65536-page boundary); fresh heap memory is pre-filled with 0xBE so zeroing has to be done by the code under test; four builds: instrumented clang -O1 with array and gnu-ld data embedding, plain gcc -O2, plain clang -O3", ref="5/C05"),
 "C16": dict(engine="simrt", cat="exploration", tech="deterministic simulation: seeded schedules (random walk + PCT) over parked real threads, linearizability / sequential-consistency check of atomic-op histories per 8-byte word and jointly over all touched words; happens-before data-race detector over the accessed cells (little-endian build); x86-TSO store-buffer model for accesses weaker than seq_cst",
   text="2-4 simulated threads of one shared-memory instance family execute seeded mixes of all 63 atomic opcodes (two static offsets, mixed widths on hot words, operands with bits above the access width); every history is checked for linearizability against a byte-array register specification including the final memory. Runs on the native little-endian build (builtins, indivisible steps; two modules: shared memory defined / imported), on the forced big-endian build whose RMWs are mutex-based sequences that really interleave, and on the big-endian build with the header's portable byte-swap macros.",
   note="interleavings of indivisible atomic steps plus delayed stores (TSO store buffer) for any access whose memory order is weaker than seq_cst; load reordering / non-multi-copy-atomic hardware not modelled; histories <= 28 ops; search budget 1e6 states (over-budget = unchecked, never a violation)", ref="5/C16"),
 "C17": dict(engine="simrt", cat="exploration", tech="deterministic simulation: seeded schedules, spurious wake-ups, simulated clock/timeouts; refinement of wait/notify histories against a sequential futex specification (R1-R8) plus bounded liveness after a fault-free drain",
   text="2-5 simulated threads run seeded wait32/wait64/notify/value-change operations (static offset 0 and non-zero, colliding hash buckets, timeouts -1/0/us/ms/s and values near 2^63 ns; waits whose allocations fail) under every lock/cond/load/store interleaving the scheduler draws, with spurious wake-ups and timer-vs-notify races; black-box rules on invoke/return events decide return codes, counts, no-lost-wake-up (incl. atomic check-and-enqueue), cross-address isolation and termination; ASan guards lifetimes. A quarter of the plans add two threads waiting on a second, independent shared memory that nobody writes or notifies (results fixed by the specification).",
   note="POSIX cond semantics as simulated (any waiter may be signalled, spurious wake-ups legal); realtime clock does not jump during waits", ref="5/C17"),
 "C18": dict(engine="simrt", cat="exploration", tech="deterministic simulation: seeded schedules with load/store-granular preemption; linearizability of grow/size histories against a bounded counter + vector-clock race detector on the memory descriptor",
   text="2-4 simulated threads grow/query/touch/fill/copy/wait on one shared memory, on the little-endian build and on the forced big-endian build (every atomic path goes through the memory mutex there); each history must be linearizable w.r.t. a bounded page counter (distinct old sizes, failed grows change nothing, final size = initial + successful deltas <= max), touched bytes of observed pages must hold, and a FastTrack-style happens-before detector fed by the instrumentation callbacks must see no unordered conflicting accesses to data/size/pages/maxPages.",
   note="sequentially consistent interleavings; race detector only sees instrumented code (generated C, w2c2_base.h inlines, futex)", ref="5/C18"),
 "C19": dict(engine="simrt", cat="exploration", tech="deterministic simulation on the forced big-endian build: seeded load/store/bulk/atomic histories against the byte-reversed reference model, atomic histories also under seeded schedules",
   text="The E1 workloads of C05, C16 and C17 (wait/notify, judged by the futex rules) run on builds with WASM_ENDIAN forced to big-endian (bswap builtins; the header's portable swap macros; no threads implementation, with a module that has atomic loads/stores only), and the WASI-host workloads of C12-C15 run on a build where module, wasi.c and the harness' guest-memory accessors are the byte-reversing ones; the model stores every 16/32/64-bit access byte-reversed and 8-bit/bulk accesses unreversed, so a wrong-width, doubled or missing swap changes bytes or results. Runtime half of the property only.",
   note="a little-endian host with WASM_ENDIAN forced to big. The 'translator itself on a big-endian host' clause (buffer.h) has no schedule or fault in it; it is only touched by an auxiliary, schedule-free sample: the translator built with the big-endian reader must produce, for a module, the output the plain translator produces for the same module with byte-reversed f32/f64 immediates", ref="5/C19"),
}

CHECKS["C06"] = dict(engine="siminst", cat="exploration", tech="deterministic simulation: seeded interleavings (at operation boundaries) of instantiations and calls on 1-4 live instances of seeded module variants, per-instance / per-object reference model compared after every operation",
   text="Eight (thorough: 32) seeded variants of a generated module family - defined, imported or shared memory; defined or imported table; imported globals used as segment offsets and initialisers; overlapping, zero-length, last-byte and all-zero active data segments; a passive segment; element segments; optional start function with a host call - are translated by the current translator. Client tasks instantiate them (into zeroed or garbage-filled structs, as children of live instances, or again into the same struct after FreeInstance against other resolver objects) on own or shared resolver objects and call exported getters/setters, loads/stores, grow, memory.init and call_indirect; the scheduler interleaves the clients. After every operation all live instances, memory objects and tables are compared with the model: initial state (sizes, segment order, globals, table slots), start function exactly once and after the segments, persistence, isolation of defined state, binding of imports, reachability of '<module>_<name>' exports, and the instance's function export name table (every export name once, aliases and re-exported imports included, each entry leading to its function).",
   note="operations are atomic in the model (interleaving at operation boundaries); child instances only for variants without shared memory; a generated family, not arbitrary programs", ref="5/C06")
E2 = "E2 simxl: every w2c2/*.c of the working tree (main renamed w2c2_main) run in a forked child per simulated run on a tmpfs scratch tree; pthread pool under the simcore baton scheduler (preemption at sync ops, I/O calls, instrumented loads/stores), simulated CPU count/exit, fopen/fclose faults, record-and-refuse monitor on mutating libc calls; clang ASan + memory-related UBSan checks"
CHECKS.update({
 "C09": dict(engine="simxl", cat="exploration", tech="deterministic simulation: seeded schedules of the producer/worker pool (random walk + PCT, spurious wake-ups, thread-create failures) with byte-for-byte comparison of every output set against the unpreempted single-thread run; auxiliary compile and spec-assert behaviour samples for option variants, token identity of pretty and compact output, and a syntax-only compile of the default and -m output, for every corpus and spec module",
   text="The translator's worker pool runs under the seeded scheduler for every sampled (module, option combination, output path): termination, exit status, the exact output file-name set and byte-identity of all files with the canonical '-t 1' unpreempted run decide schedule/thread-count independence; under injected fopen/fclose failures and short writes of the data segment file a run may fail, but success must mean the canonical output. Because option equivalence of behaviour is not a schedule property, a stratified sample of canonical outputs is additionally compiled file-by-file and spec-suite modules are built and executed under 7 option variants (pretty, -f, -g, -m, gnu-ld, threads) with their assert transcripts compared to the default build.",
   note="interleavings are sequentially consistent; behaviour equivalence across options is sampled (not simulated): 6 modules quick / 80 thorough, stratified by data-segment shape; build-configuration variants (no pthreads, bundled getopt/libgen) must emit identical files: 10 modules quick, the whole corpus thorough", ref="5/C09"),
 "C10": dict(engine="simxl", cat="fault_enumeration", tech="deterministic simulation with torn-input fault enumeration: every run serves only the first k bytes of a valid module (k sampled, plus every section boundary; exhaustive for small modules in the thorough tier) under a seeded option/schedule swarm, ASan/UBSan-memory as oracle",
   text="Valid modules (96 seeded synthetic ones with wild UTF-8/punctuation/long names, many locals, deep nesting, duplicated bodies + 48 spec-suite modules + coremark) and their proper prefixes are translated under seeded option combinations and worker schedules, and every one of the 874 valid spec-suite modules (committed list with content hashes, not 'what the translator accepts today') is translated once per run; the run must exit 0 (valid) or exit 0 / non-zero with a diagnostic (prefix), never die on a signal, sanitizer report, assertion or hang. A thread stack size the translator asks for is honoured by the simulated pthread_create (times 8 for instrumented frames).",
   note="allocation failures are not injected (outside the statement); fopen/fclose failures, short freads and worker-thread creation failures are injected into part of the untruncated runs, under which only memory safety and termination are judged; sanitizer set = address + null/bounds/alignment/object-size/nonnull (memory operations), not arithmetic UB", ref="5/C10"),
 "C20": dict(engine="simxl", cat="exploration", tech="deterministic simulation: invariant monitor at every mutating libc call plus before/after diff of a real scratch tree, across seeded options, path shapes, near-miss decoy files, worker schedules and fopen/fclose faults",
   text="Each run builds a scratch tree with the input (sometimes inside the output directory), a reference module and 4-13 decoy files whose names nearly match the implementation-file pattern, inside and outside the output directory; the translator may create/overwrite only out.c, its header, [sd]<10 digits>.c and 'datasegments' in the output directory and, with -c, delete only names matching the pattern - checked at the call and by diffing the tree, also after injected fopen/fclose errors. One run in eight has the output file as a symbolic link into another directory. Output directories include names that are glob patterns with sibling directories they match and one-character names; a quarter of the runs use the translator built with the project's own dirname/basename/getopt/strdup (hosts without libgen/getopt).",
   note="calls are seen at libc entry points; a raw syscall would only be caught by the tree diff", ref="5/C20"),
})


E3 = "E3 simwasi: wasi/wasi.c + generated 'wasihost' forwarder module (translated by the current translator) in a forked child per run on a tmpfs tree; reference = the same POSIX operations on a mirror tree; simulated clock/entropy/exit/thread scheduling; fault points at open/readv/writev/lseek/opendir/readdir; clang ASan + memory UBSan"
CHECKS.update({
 "C12": dict(engine="simwasi", cat="exploration", tech="deterministic simulation: seeded WASI call histories with injected short transfers/EINTR/EIO/ENOSPC/lseek failures, checked operation-by-operation against the real kernel driven directly on a mirror tree (reference model)",
   text="Histories of path_open/fd_write/fd_pwrite/fd_read/fd_pread/fd_seek/fd_tell/fd_filestat_get/fd_close through the exact C ABI generated code uses, in both ABI name spaces; after every operation errno, counts, 64-bit offsets, filestat fields, delivered bytes and the native file position must equal those of the corresponding POSIX call on the mirror, and the trees must be equal at the end. Under an injected fault the operation may report the fault or the short count, never other data or a moved position after positional I/O. Build variants: default, bundled strndup / no getentropy, and no <sys/uio.h> (the host's own readv/writev over read()/write(), with faults injected per segment and a prefix oracle). Concurrent phases: 2-3 simulated tasks are inside the host at the same time, each reading/writing/seeking its own file (interleaved at every instrumented access and libc call), each call judged against the same call on the mirror.",
   note="reference is the Linux kernel (pwritev/preadv/lseek/fstat); O_APPEND+pwrite, IOV_MAX and error precedence are excluded as POSIX-ambiguous", ref="5/C12"),
 "C13": dict(engine="simwasi", cat="exploration", tech="deterministic simulation: seeded descriptor-churn histories (open/close storms, double close, closed and never-issued numbers in every implemented call of both ABIs) with EMFILE injection, descriptor-table model + host-call log + ASan as oracles",
   text="A model of the descriptor table (live set, pre-opens, stdio incl. closed standard streams; registration failures through a failing path copy or a failing growth of the table) decides: path_open never returns a live number, dead numbers give EBADF in all 23 implemented descriptor-taking calls and reach no host call, pre-opens report their registered path, descriptors 1/2/0 reach host fds 1/2/0; after every operation the host descriptor recorded for each live WASI descriptor must be open, of the kind that was opened, and recorded for no other live descriptor; AddressSanitizer reports (double free, use after free of the descriptor path) are violations of this property.",
   note="unimplemented (ENOSYS) calls are not swept; descriptor 2 is never closed (it carries the sanitizer output)", ref="5/C13"),
 "C14": dict(engine="simwasi", cat="exploration", tech="deterministic simulation: seeded path/readdir histories with DT_UNKNOWN buggify and opendir/readdir errors; tree-effect oracle against the mirror tree after every operation, host-path seam check, readdir listing protocol rules",
   text="Create/remove directory, unlink, rename, symlink, readlink, stat with relative/absolute/empty/over-long (around and beyond PATH_MAX) non-NUL-terminated guest paths: errno and the whole tree must equal the mirror after each call, rejected paths change nothing and reach no host call, ASan guards the PATH_MAX buffers. fd_readdir listings with buffers from 24 bytes must deliver every entry exactly once with correct d_next/d_ino/d_namlen/d_type, resume from any returned cookie and restart at cookie 0. Concurrent phases: 2-3 simulated tasks create/rename/link/remove their own names below one directory at the same time.",
   note="paths whose resolved length is within 2 bytes below PATH_MAX are not generated; directory descriptors opened before a rename/rmdir are not judged afterwards", ref="5/C14"),
 "C15": dict(engine="simwasi", cat="exploration", tech="deterministic simulation: simulated clock and entropy source, recorded exit, seeded scheduler over concurrent thread-spawn callers with thread-create failures",
   text="args/environ vectors of arbitrary bytes at unaligned addresses, also ending exactly at the end of memory, must be reproduced exactly; clock_time_get must store sec*1e9+nsec of the simulated clock (seconds up to 2^33, nsec up to 999999999), stay monotonic, reject unknown ids with EINVAL and translate injected errors; random_get must succeed for 0..2^20 bytes and leave exactly the supplied entropy in exactly the requested range (getentropy and getrandom are seams: ENOSYS, EINTR, short counts above 256 bytes); proc_exit must end the process with the status and no later operation; 1-4 simulated threads spawn concurrently: distinct positive ids, wasi_thread_start once per spawn with that id on the shared memory, negative result without the export or on injected create failure; spawns are mixed with spawns from two further in-process modules (own wasi_thread_start / none), each of which must get its own module's behaviour.",
   note="realtime clock jumps are not injected; thread-spawn schedules are sequentially consistent interleavings", ref="5/C15"),
})


def main():
    checks = []
    for pid in sorted(CHECKS):
        c = CHECKS[pid]
        checks.append({
            "property_id": pid,
            "quick_cmd": "./check %s --tier quick" % pid,
            "thorough_cmd": "./check %s --tier thorough" % pid,
            "evidence_file": "/verif/evidence/%s.json" % pid,
            "replay_cmd_template": "./check %s --replay {path}" % pid,
            "engine": c["engine"],
            "level_claimed": {"category": c["cat"], "text": c["text"], "design_ref": c["ref"]},
            "level_note": c["note"],
            "technique": c["tech"],
        })
    claimed = set(CHECKS)
    na = [{"property_id": p, "reason": r} for p, r in NA]
    pending = {
    }
    for p, r in sorted(pending.items()):
        if p not in claimed:
            na.append({"property_id": p, "reason": r})
    m = {
      "version": 1,
      "setup_cmd": "python3 /verif/tools/setup.py",
      "hooks": {
        "guard": "W2C2_VERIF",
        "enable": "no hook exists in /repo: every seam is a link-time wrapper (-Wl,--wrap=sym), -Dmain=w2c2_main, a force-included macro header (engines/simrt/sim_atomics.h) or clang sanitizer-coverage callbacks; checks compile /repo's working tree themselves into /verif/build",
        "baseline_off_cmd": "cmake -G Ninja -B /repo/_build /repo && cmake --build /repo/_build && /repo/_build/w2c2/w2c2_test && /repo/_build/wasi/w2c2wasi_test",
        "source_commits": [],
        "add_only": True,
      },
      "engines": [
        {"name": "simrt", "path": "engines/simrt", "serves_properties": sorted(p for p in CHECKS if CHECKS[p]["engine"] == "simrt"), "kind_free_text": E1},
        {"name": "siminst", "path": "engines/siminst", "serves_properties": ["C06"], "kind_free_text": "E1 variant: one binary per generated 'inst' module (generated C + w2c2_base.h), client tasks under the simcore scheduler, resolver objects and host import in the harness, clang ASan+UBSan"},
        {"name": "simwasi", "path": "engines/simwasi", "serves_properties": sorted(p for p in CHECKS if CHECKS[p]["engine"] == "simwasi"), "kind_free_text": E3},
        {"name": "simxl", "path": "engines/simxl", "serves_properties": sorted(p for p in CHECKS if CHECKS[p]["engine"] == "simxl"), "kind_free_text": E2},
      ],
      "checks": checks,
      "notes": "Deterministic simulation with fault injection (see DESIGN.md). Genuine defects found and repaired by unguarded 'fix:' commits in /repo: %s; they are listed in known_findings.json as fixed." % ", ".join(fixes()),
      "not_applicable": na,
    }
    json.dump(m, open(os.path.join(V, "MANIFEST.json"), "w"), indent=1)

main()
