#!/usr/bin/env python3
"""setup_cmd: builds what does not depend on /repo (generated .wasm inputs) and checks the toolchain. Offline."""
import os, sys, subprocess, shutil
V = os.path.dirname(os.path.dirname(os.path.abspath(__file__)))
sys.path.insert(0, os.path.join(V, "lib"))
for tool in ("clang", "clang++", "gcc", "python3"):
    if not shutil.which(tool):
        sys.exit("missing tool: " + tool)
import e1
for kind in ("atom", "mem"):
    print("generated", e1.gen_module(kind))
import e3
print("generated", e3.gen_wasihost())
os.makedirs(os.path.join(V, "evidence"), exist_ok=True)
print("setup ok")
