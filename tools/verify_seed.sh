#!/bin/bash
# usage: verify_seed.sh <ID> <patch> <base-commit>
# Confirms: builds + both test binaries pass with the patch; demo fails with it and passes without it.
ID=$1; PATCH=$2; BASE=${3:-HEAD}
WT=/tmp/wt/vs-$ID-$$
git -C /repo worktree add -q --detach $WT $BASE || exit 3
cd $WT
res="id=$ID base=$BASE"
if git apply $PATCH 2>/dev/null; then res="$res apply=ok"; else res="$res apply=FAIL"; echo "$res"; cd /; git -C /repo worktree remove --force $WT; exit 1; fi
if (cmake -G Ninja -B _build . >/dev/null 2>&1 && cmake --build _build >/dev/null 2>&1); then res="$res build=ok"; else res="$res build=FAIL"; fi
if (timeout 120 ./_build/w2c2/w2c2_test >/dev/null 2>&1 && timeout 120 ./_build/wasi/w2c2wasi_test > /dev/null 2>&1); then res="$res tests=pass"; else res="$res tests=FAIL"; fi
timeout 900 bash ${OUTBASE:-/tmp/wt}/out-$ID/demo/run.sh $WT >/tmp/wt/vs2-$ID-patched.log 2>&1; res="$res demo_patched_exit=$?"
git apply -R $PATCH
timeout 900 bash ${OUTBASE:-/tmp/wt}/out-$ID/demo/run.sh $WT >/tmp/wt/vs2-$ID-clean.log 2>&1; res="$res demo_clean_exit=$?"
cd /; git -C /repo worktree remove --force $WT
echo "$res"
